#!/usr/bin/env python3
"""setup-time self check: the framework imports, the manifest is well formed, the built-in evidence validator works."""
import json
import os
import sys

ROOT = os.path.dirname(os.path.dirname(os.path.abspath(__file__)))
sys.path.insert(0, ROOT)
from twzmon import plans, runner  # noqa: E402

m = json.load(open(os.path.join(ROOT, "MANIFEST.json")))
ids = [c["property_id"] for c in m["checks"]]
assert len(ids) == len(set(ids))
for c in m["checks"]:
    assert c["property_id"] in plans.PLANS, c["property_id"]
props = [json.loads(l)["id"] for l in open(os.path.join(ROOT, "properties.jsonl")) if l.strip()]
na = [x["property_id"] for x in m.get("not_applicable", [])]
assert sorted(ids + na) == sorted(props), (sorted(ids + na), sorted(props))
runner.validate_evidence({"property_id": "X", "tier": "quick", "seed": 0, "level": "exploration", "wall_s": 0.1,
                          "coverage": {"evaluations": 3, "distinct_nontrivial": 2, "rule": "r", "samples": [1]}})
k = runner.load_known()
assert isinstance(k.get("findings"), list)
print("selfcheck ok: %d checks, %d not_applicable" % (len(ids), len(na)))
