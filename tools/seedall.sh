#!/bin/bash
# evaluate every delivered agent change that has not been evaluated yet (round r: ids <P>-(2r-1), <P>-(2r))
cd /verif
for d in /tmp/agent_out_C*/change* /tmp/agent2_out_C*/change* /tmp/agent3_out_C*/change* /tmp/agent4_out_C*/change* /tmp/agent5_out_C*/change* /tmp/agent6_out_C*/change* /tmp/agent7_out_C*/change* /tmp/agent8_out_C*/change* /tmp/agent9_out_C*/change* /tmp/agent10_out_C*/change* /tmp/agent11_out_C*/change*; do
  [ -d "$d" ] || continue
  base=$(basename $(dirname $d))
  pid=$(echo $base | sed 's/agent[0-9]*_out_//')
  k=$(basename $d | sed 's/change//')
  case $base in agent2_*) k=$((k+2));; agent3_*) k=$((k+4));; agent4_*) k=$((k+6));; agent5_*) k=$((k+8));; agent6_*) k=$((k+10));; agent7_*) k=$((k+12));; agent8_*) k=$((k+14));; agent9_*) k=$((k+16));; agent10_*) k=$((k+18));; agent11_*) k=$((k+20));; esac
  id="$pid-$k"
  [ -f $d/patch.diff ] && [ -f $d/demo.py ] && [ -f $d/notes.md ] || continue
  [ -f seeded/$id/meta.json ] && continue
  echo "### $id"
  /venv/bin/python tools/seedrun.py $d $id $pid $EXTRA 2>&1 | tail -2
done
