#!/bin/bash
# evaluate every delivered agent change that has not been evaluated yet
cd /verif
for d in /tmp/agent_out_C*/change*; do
  pid=$(basename $(dirname $d) | sed 's/agent_out_//'); k=$(basename $d | sed 's/change//')
  id="$pid-$k"
  [ -f $d/patch.diff ] && [ -f $d/demo.py ] || continue
  [ -f seeded/$id/meta.json ] && continue
  echo "### $id"
  /venv/bin/python tools/seedrun.py $d $id $pid 2>&1 | tail -2
done
