#!/bin/bash
# evaluate every delivered agent change that has not been evaluated yet (round 1: ids <P>-1,-2; round 2: <P>-3,-4)
cd /verif
for d in /tmp/agent_out_C*/change* /tmp/agent2_out_C*/change*; do
  [ -d "$d" ] || continue
  base=$(basename $(dirname $d))
  pid=$(echo $base | sed 's/agent2\{0,1\}_out_//')
  k=$(basename $d | sed 's/change//')
  case $base in agent2_*) k=$((k+2));; esac
  id="$pid-$k"
  [ -f $d/patch.diff ] && [ -f $d/demo.py ] && [ -f $d/notes.md ] || continue
  [ -f seeded/$id/meta.json ] && continue
  echo "### $id"
  /venv/bin/python tools/seedrun.py $d $id $pid $EXTRA 2>&1 | tail -2
done
