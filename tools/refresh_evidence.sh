#!/bin/bash
# Re-run every quick check on the unchanged /repo and validate the evidence files (run before committing).
cd "$(dirname "$0")/.."
rc_all=0
for p in C01 C02 C03 C04 C05 C06 C07 C08 C09 C10 C11 C12 C13 C14 C15 C16 C17 C18 C19 C20; do
  out=$(VERIF_SEED=${VERIF_SEED:-0} /venv/bin/python check.py $p --tier ${TIER:-quick} 2>&1); rc=$?
  echo "$out" | tail -1
  if [ $rc -ne 0 ]; then echo "!! $p rc=$rc"; echo "$out" | tail -5; rc_all=1; fi
done
python3-vt - <<'PY'
import json, glob, jsonschema
es = json.load(open('/root/.vp/EVIDENCE.schema.json'))
bad = 0
for f in sorted(glob.glob('evidence/*.json')):
    try:
        jsonschema.validate(json.load(open(f)), es)
    except Exception as e:
        bad += 1; print("INVALID", f, str(e)[:200])
print("evidence files valid" if not bad else "%d invalid" % bad)
PY
exit $rc_all
