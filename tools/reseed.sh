#!/bin/bash
# re-run checks against already collected seeds:  tools/reseed.sh "C04-7 C04" "C05-8 C05,C09" ...
cd /verif
for x in "$@"; do set -- $x; /venv/bin/python tools/seedrun.py /verif/seeded/$1 $1 ${1%-*} --checks $2 --skip-tests 2>&1 | tail -1 | cut -c1-200; done
