#!/usr/bin/env python3
"""Regenerates /verif/MANIFEST.json from the table below (kept valid against MANIFEST.schema.json)."""
import json
import os
import sys

ROOT = os.path.dirname(os.path.dirname(os.path.abspath(__file__)))
sys.path.insert(0, ROOT)
from tools import manifest_table as T  # noqa: E402
from tools.manifest_table import CHECKS, ENGINES, NOT_APPLICABLE, NOTES  # noqa: E402

PY = "/venv/bin/python"


def main():
    checks = []
    for pid, c in CHECKS.items():
        checks.append(
            {
                "property_id": pid,
                "quick_cmd": "%s check.py %s --tier quick" % (PY, pid),
                "thorough_cmd": "%s check.py %s --tier thorough" % (PY, pid),
                "evidence_file": "evidence/%s.json" % pid,
                "replay_cmd_template": "%s check.py %s --replay {path}" % (PY, pid),
                "engine": c["engine"],
                "level_claimed": {"category": c["level"], "text": c["text"] + T.EXTRA_TEXT.get(pid, ""), "design_ref": c["design_ref"]},
                "level_note": c["note"],
                "technique": c["technique"],
            }
        )
    m = {
        "version": 1,
        "setup_cmd": "%s -m compileall -q twzmon check.py tools && %s tools/selfcheck.py" % (PY, PY),
        "hooks": {
            "guard": "TWZ_VERIF",
            "enable": "no source hooks in /repo: check.py starts every worker with TWZ_VERIF=1 and PYTHONPATH=/repo:/verif; "
            "twzmon.bootstrap patches the stdlib boundary (ThreadPoolExecutor, concurrent.futures.wait, asyncio.wait, asyncio Task) "
            "before `import tawazi` and wraps ExecNode.execute / StrictDict.__setitem__ as class attributes in the worker process only; "
            "tawazi itself never reads the variable, so the working tree of /repo is exercised unmodified",
            "baseline_off_cmd": "cd /repo && /venv/bin/python -m pytest -ra -q -p no:cacheprovider --timeout=900 --continue-on-collection-errors",
            "source_commits": [],
            "add_only": True,
        },
        "engines": ENGINES,
        "checks": checks,
        "notes": NOTES,
        "not_applicable": NOT_APPLICABLE,
    }
    with open(os.path.join(ROOT, "MANIFEST.json"), "w") as f:
        json.dump(m, f, indent=1)
    print("wrote MANIFEST.json with %d checks" % len(checks))


if __name__ == "__main__":
    main()
