#!/usr/bin/env python3
"""Re-run the quick check of each seeded change's OWN property against a scratch worktree with the change applied and record
the outcome in seeded/<id>/meta.json (demo and test-suite results are kept as they are).

  tools/regress.py <stream> <nstreams> [id-regex]
"""
import json
import os
import re
import subprocess
import sys
import tempfile
import time

ROOT = os.path.dirname(os.path.dirname(os.path.abspath(__file__)))
PY = "/venv/bin/python"


def main():
    k, n = int(sys.argv[1]), int(sys.argv[2])
    rx = re.compile(sys.argv[3]) if len(sys.argv) > 3 else None
    ids = sorted(d for d in os.listdir(os.path.join(ROOT, "seeded")) if os.path.exists(os.path.join(ROOT, "seeded", d, "meta.json")))
    ids = [i for i in ids if rx is None or rx.search(i)]
    for j, sid in enumerate(ids):
        if j % n != k:
            continue
        pid = sid.split("-")[0]
        tmp = tempfile.mkdtemp(prefix="twzregress_")
        wt = os.path.join(tmp, "repo")
        try:
            subprocess.run("git -C /repo worktree add -q --detach %s HEAD" % wt, shell=True, check=True, capture_output=True)
            r = subprocess.run("git apply %s" % os.path.join(ROOT, "seeded", sid, "patch.diff"), shell=True, cwd=wt, capture_output=True, text=True)
            if r.returncode != 0:
                print(json.dumps({"seed_id": sid, "error": "patch does not apply"}), flush=True)
                continue
            env = dict(os.environ, TWZ_REPO=wt, TWZ_EVIDENCE_DIR=os.path.join(tmp, "evidence"), TWZ_REPLAY_DIR=os.path.join(tmp, "replays"))
            t0 = time.time()
            try:
                r = subprocess.run([PY, os.path.join(ROOT, "check.py"), pid, "--tier", "quick"], env=env, cwd=ROOT, capture_output=True, text=True, timeout=2400)
                rc, out = r.returncode, r.stdout + r.stderr
            except subprocess.TimeoutExpired:
                rc, out = 124, "timeout"
            lines = out.splitlines()
            mechs = sorted({l.split("mechanism=")[1].split(" ")[0] for l in lines if "mechanism=" in l})
            mp = os.path.join(ROOT, "seeded", sid, "meta.json")
            meta = json.load(open(mp))
            meta.setdefault("checks", {})[pid] = {"rc": rc, "violation": rc == 1, "mechanisms": mechs[:8], "secs": round(time.time() - t0, 1),
                                                  "summary": lines[-1][:300] if lines else "", "inconclusive": [l[:300] for l in lines if l.startswith("INCONCLUSIVE")][:2],
                                                  "verif_seed": os.environ.get("VERIF_SEED", "0"), "repo_head": subprocess.run("git -C /repo log -1 --format=%h", shell=True, capture_output=True, text=True).stdout.strip()}
            meta["caught_by"] = sorted(p for p, c in meta["checks"].items() if c.get("violation"))
            json.dump(meta, open(mp, "w"), indent=1)
            print(json.dumps({"seed_id": sid, "own": rc == 1, "caught_by": meta["caught_by"], "secs": round(time.time() - t0)}), flush=True)
        finally:
            subprocess.run("git -C /repo worktree remove --force %s" % wt, shell=True, capture_output=True)
            subprocess.run("rm -rf %s" % tmp, shell=True)


if __name__ == "__main__":
    main()
