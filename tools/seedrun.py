#!/usr/bin/env python3
"""Confirm and evaluate a seeded change delivered by a sub-agent.

  tools/seedrun.py <src_dir> <seed_id> <PROP> [--checks P1,P2,...] [--tier quick]

<src_dir> holds patch.diff, demo.py, notes.md.  Steps (all in a scratch copy of /repo under /tmp, removed afterwards):
  1. the patch applies to the current /repo HEAD and the package imports
  2. the repository's own test suite passes with the change
  3. demo.py passes on the original tree and fails with the change
  4. the named checks are run against the changed tree (TWZ_REPO) - which ones report a VIOLATION
Results are written to /verif/seeded/<seed_id>/ (patch.diff, demo.py, notes.md, meta.json).
"""
import argparse
import json
import os
import shutil
import subprocess
import sys
import tempfile
import time

ROOT = os.path.dirname(os.path.dirname(os.path.abspath(__file__)))
PY = "/venv/bin/python"


def sh(cmd, env=None, cwd=None, timeout=1800):
    p = subprocess.run(cmd, shell=isinstance(cmd, str), env=env, cwd=cwd, capture_output=True, text=True, timeout=timeout)
    return p.returncode, (p.stdout or "") + (p.stderr or "")


def main():
    ap = argparse.ArgumentParser()
    ap.add_argument("src")
    ap.add_argument("seed_id")
    ap.add_argument("prop")
    ap.add_argument("--checks", default=None)
    ap.add_argument("--tier", default="quick")
    ap.add_argument("--skip-tests", action="store_true")
    a = ap.parse_args()
    src = a.src
    meta = {"seed_id": a.seed_id, "breaks_property": a.prop, "repo_head": sh("git -C /repo rev-parse --short HEAD")[1].strip(), "ran": {}}
    tmp = tempfile.mkdtemp(prefix="twzseed_")
    try:
        wt = os.path.join(tmp, "repo")
        rc, out = sh("git -C /repo worktree add -q --detach %s HEAD" % wt)
        assert rc == 0, out
        rc, out = sh("git -C %s apply %s" % (wt, os.path.join(src, "patch.diff")))
        meta["ran"]["git_apply"] = {"rc": rc, "out": out[-300:]}
        if rc != 0:
            print("PATCH DOES NOT APPLY", out)
            meta["confirmed"] = False
            return finish(a, src, meta)
        env = dict(os.environ, PYTHONPATH=wt)
        rc, out = sh([PY, "-c", "import tawazi; print(tawazi.__file__)"], env=env, cwd=wt)
        meta["ran"]["import"] = out.strip()[-200:]
        assert wt in out, out
        if not a.skip_tests:
            t0 = time.time()
            rc, out = sh([PY, "-m", "pytest", "-q", "-p", "no:cacheprovider", "--timeout=900", "-q"], env=env, cwd=wt)
            tail = [l for l in out.splitlines() if "passed" in l or "failed" in l or l.startswith("FAILED")][-4:]
            meta["ran"]["test_suite_with_change"] = {"rc": rc, "tail": tail, "secs": round(time.time() - t0)}
            if rc != 0 and any("test_main_thread_resource_computation_time" not in l for l in tail if l.startswith("FAILED")):
                # retry once (timing-flaky tests)
                rc, out = sh([PY, "-m", "pytest", "-q", "-p", "no:cacheprovider", "--timeout=900", "-q"], env=env, cwd=wt)
                tail = [l for l in out.splitlines() if "passed" in l or "failed" in l or l.startswith("FAILED")][-4:]
                meta["ran"]["test_suite_with_change_retry"] = {"rc": rc, "tail": tail}
            meta["tests_pass_with_change"] = rc == 0
        demo = os.path.join(src, "demo.py")
        rc0, out0 = sh([PY, demo], env=dict(os.environ, PYTHONPATH="/repo"), cwd=tmp, timeout=600)
        rc1, out1 = sh([PY, demo], env=env, cwd=tmp, timeout=600)
        meta["ran"]["demo_on_original"] = {"rc": rc0, "tail": out0[-300:]}
        meta["ran"]["demo_with_change"] = {"rc": rc1, "tail": out1[-500:]}
        meta["demo_discriminates"] = (rc0 == 0 and rc1 != 0)
        # our checks against the changed tree
        checks = (a.checks.split(",") if a.checks else [a.prop])
        env2 = dict(os.environ, TWZ_REPO=wt, TWZ_EVIDENCE_DIR=os.path.join(tmp, "evidence"), TWZ_REPLAY_DIR=os.path.join(tmp, "replays"))
        meta["checks"] = {}
        for pid in checks:
            t0 = time.time()
            rc, out = sh([PY, os.path.join(ROOT, "check.py"), pid, "--tier", a.tier], env=env2, cwd=ROOT, timeout=3600)
            lines = out.splitlines()
            mechs = sorted({l.split("mechanism=")[1].split(" ")[0] for l in lines if "mechanism=" in l})
            meta["checks"][pid] = {"rc": rc, "violation": rc == 1, "mechanisms": mechs[:8], "secs": round(time.time() - t0, 1),
                                   "summary": lines[-1][:300] if lines else "", "inconclusive": [l[:300] for l in lines if l.startswith("INCONCLUSIVE")][:2]}
            print("  check %s on %s: rc=%d %s" % (pid, a.seed_id, rc, mechs[:3]))
        meta["caught_by"] = [p for p, r in meta["checks"].items() if r["violation"]]
        meta["confirmed"] = bool(meta.get("tests_pass_with_change", True)) and meta["demo_discriminates"]
        return finish(a, src, meta)
    finally:
        sh("git -C /repo worktree remove --force %s" % os.path.join(tmp, "repo"))
        shutil.rmtree(tmp, ignore_errors=True)


def finish(a, src, meta):
    dst = os.path.join(ROOT, "seeded", a.seed_id)
    os.makedirs(dst, exist_ok=True)
    for f in ("patch.diff", "demo.py", "notes.md"):
        if os.path.exists(os.path.join(src, f)) and os.path.abspath(os.path.join(src, f)) != os.path.abspath(os.path.join(dst, f)):
            shutil.copy(os.path.join(src, f), os.path.join(dst, f))
    old = {}
    mp = os.path.join(dst, "meta.json")
    if os.path.exists(mp):
        old = json.load(open(mp))
        # keep earlier check results for properties not re-run now
        for k, v in old.get("checks", {}).items():
            meta.setdefault("checks", {}).setdefault(k, v)
        meta["caught_by"] = sorted(p for p, r in meta.get("checks", {}).items() if r.get("violation"))
        for k in ("needs_to_manifest", "what"):
            if k in old:
                meta[k] = old[k]
        if meta.get("tests_pass_with_change") is None and old.get("tests_pass_with_change") is not None:
            meta["tests_pass_with_change"] = old["tests_pass_with_change"]
            meta["ran"]["test_suite_with_change"] = old.get("ran", {}).get("test_suite_with_change")
            meta["confirmed"] = bool(meta["tests_pass_with_change"]) and meta.get("demo_discriminates", False)
    json.dump(meta, open(mp, "w"), indent=1)
    print(json.dumps({k: meta.get(k) for k in ("seed_id", "confirmed", "tests_pass_with_change", "demo_discriminates", "caught_by")}))
    return 0


if __name__ == "__main__":
    sys.exit(main())
