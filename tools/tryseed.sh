#!/bin/bash
# tools/tryseed.sh <seed-id> <check> [tier] [VERIF_SEED]: run one check against a scratch worktree with the seeded change applied; print the mechanisms
cd /verif
wt=/tmp/wt_try_$$
git -C /repo worktree add -q --detach $wt HEAD || exit 2
(cd $wt && git apply /verif/seeded/$1/patch.diff) || { git -C /repo worktree remove --force $wt; exit 2; }
VERIF_SEED=${4:-1} TWZ_REPO=$wt TWZ_EVIDENCE_DIR=/tmp/try_ev_$$ TWZ_REPLAY_DIR=/tmp/try_rp_$$ /venv/bin/python check.py $2 --tier ${3:-quick} > /tmp/try_out_$$.txt 2>&1
grep -o "mechanism=[a-z_A-Z:]*" /tmp/try_out_$$.txt | sort | uniq -c
tail -1 /tmp/try_out_$$.txt | cut -c1-200
git -C /repo worktree remove --force $wt
rm -rf /tmp/try_ev_$$ /tmp/try_rp_$$ /tmp/try_out_$$.txt
