#!/usr/bin/env python3
"""Write the task descriptions for one round of seeding sub-agents to /tmp/agent_prompts/R<round>_<PID>.txt.

A prompt contains ONLY: the text of the property, the agent's own scratch worktree, how to run code there, what to deliver,
and one line per change already collected for that property (so that it is not repeated).  Nothing about /verif.

  tools/mkprompts.py <round>        (round >= 2; worktrees /tmp/wt<round>_<PID> must be created separately)
"""
import json
import os
import sys

ROOT = os.path.dirname(os.path.dirname(os.path.abspath(__file__)))

FOCUS = {
    5: """This is the FIFTH round for this property: the obvious places AND most small helpers have been used (see the list below). Look for changes of these kinds and be SMALL and SUBTLE (ideally <= 6 changed lines):
  - changes whose effect depends on a particular INTERLEAVING, completion order or moment of a failure (two nodes finishing "at the same time", a node finishing while the scheduler is between two waits, a failure while siblings are in flight, a main-thread node running while pooled nodes finish), on the ASYNC twin of a sync path (AsyncDAG / AsyncDAGExecution / the asyncio wait helpers) or on MIXED resources (thread + async-thread + main-thread in one DAG);
  - changes that need a MULTI-STEP HISTORY on one object (call, executor, setup, config reload, compose, deepcopy, failing call, cache write / restart - in some order) before anything differs;
  - changes hiding behind rarely used CONFIGURATION or entry points: tawazi.config.cfg flags and their environment variables (default resource, default is_sequential, profiling of all nodes, RUN_DEBUG_NODES, behaviour of decorated functions called outside a DAG), config_from_yaml / config_from_json (files, duplicate keys, tags as keys), twz_tag / twz_unpack_to / twz_active given at the call site, unpack_to, tuple tags, `dag.results`, `executor.results`, `get_nodes_by_tag`, `DAG.setup(...)` arguments, `executor(cache_in=..., from_cache=..., cache_deps_of=...)`;
  - off-by-one / boundary mistakes (max_concurrency exactly equal to the number of ready nodes, exactly one node, empty DAG, a DAG that returns a constant or an argument, zero / negative / equal priorities, 10+ usages of one function: ids f<<9>> vs f<<10>>, names containing "<<", ">>", ">!>" or ".").""",
    6: """This is the SIXTH round for this property: scheduler, helpers, configuration and most histories have been used (see the list below). Look for changes of these kinds and be SMALL and SUBTLE (ideally <= 6 changed lines):
  - VALIDATION and ERROR paths: checks that reject invalid use (wrong / missing / surplus arguments of a DAG call, unknown or ambiguous aliases, illegal dependencies at build time, reuse of an executor, a DAG described inside another description, calling decorated functions outside a DAG) made slightly too strict or too lenient, or raising a different exception type / at a different moment (at construction instead of at call time or vice versa), or swallowing an exception; `except` clauses that became broader or narrower (Exception vs BaseException, KeyboardInterrupt, asyncio.CancelledError);
  - the SHAPE of what is returned or passed on: tuple vs list vs dict returns of a DAG, single-element tuples, empty returns, None results, `unpack_to` / `twz_unpack_to` with 1 element or with a generator / list result, nested containers of results, results that are themselves tuples / dicts indexed several levels deep, keyword-only and defaulted parameters of the describing function, *args / **kwargs in node functions;
  - Python-level details: dataclass fields and their defaults, `__eq__` / `__hash__` of the library's own classes, mutable default arguments, shallow vs deep copies, `functools.wraps` / `update_wrapper` metadata, descriptors (`__get__`) and bound methods / staticmethods / lambdas / functools.partial / callable objects as node functions, generators and iterators consumed twice, `is` vs `==`, truthiness of `0` / `""` / empty containers / numpy-like objects whose `__bool__` raises;
  - resources of the PROCESS: thread pools and event loops that are not shut down, tasks that are left pending, threads created per node, recursion depth on long chains (1000 nodes), quadratic behaviour that turns into a hang for 2000 nodes - when this breaks the property as stated.""",
    7: """This is the SEVENTH round for this property; single features have been covered thoroughly (see the list below). This round is about FEATURE INTERACTIONS: make a SMALL and SUBTLE change (ideally <= 6 changed lines) that is harmless for every feature on its own and only breaks the property when TWO (or three) features are combined - the combination must be legal and plausible. Features to combine: nested DAGs (a DAG called inside a DAG, several levels, the same inner DAG in two outer DAGs), reused functions (ids f, f<<1>>, ... also inside nested DAGs: prefixed ids), tags (decorator tag, twz_tag at the call site, tuple tags, tags on nodes of nested DAGs), selections by id / tag / node reference (executor target / exclude / root, setup(target_nodes), cache_deps_of, compose inputs / outputs, config keys) - in particular selecting nodes INSIDE a nested DAG by their prefixed id, setup nodes, debug nodes (RUN_DEBUG_NODES on and off), activation flags (constants, arguments, results, keyed results, and_/or_/not_ expressions), unpack_to / twz_unpack_to, operators on results, defaults of DAG parameters, keyword arguments, the three resources, is_sequential, priorities (compound priorities across nested DAGs), max_concurrency, AsyncDAG, executors (single use, results attribute), caching (cache_in / from_cache / cache_deps_of), compose, configuration reload (dict / yaml / json, by id / by tag), deep copies of DAGs, profiling of all nodes, failures (exceptions in nodes) and retries.
Examples of the kind of interaction meant (do not use these literally): a setup node inside a nested DAG selected through an executor of the outer DAG; a debug node that carries a tag used in exclude_nodes; a flagged node whose result is unpacked by twz_unpack_to and cached; a composed DAG that is then re-configured by tag; profiling switched on while a node fails; a deep-copied DAG whose executor is started from the cache file of the original.""",
    8: """This is the EIGHTH round for this property; code paths, configurations, histories and feature interactions have been covered thoroughly (see the list below). This round is about DATA and IDENTITY: make a SMALL and SUBTLE change (ideally <= 6 changed lines) whose effect depends on the VALUES, NAMES or OBJECTS that flow through the library, and that is invisible with the small integers / short strings and the simple names that tests normally use. Kinds of dependence meant:
  - values: None, False, 0, "", empty tuple / list / dict as argument, default, constant, result, flag or dictionary key; NaN and objects whose `==` is not reflexive, or returns a non-bool (numpy-like), or raises; equal but not identical objects (1 == 1.0 == True, "a" vs a str subclass); unhashable values (lists, dicts) where a hash is suddenly needed; very large values; exception instances / exception classes / tawazi's own objects (ExecNode, UsageExecNode, DAG, NoVal-like sentinels, Ellipsis) used as ordinary values; objects with their own `__getitem__` / `__iter__` / `__len__` / `__bool__` / `__call__` / `__getattr__` / `__deepcopy__` / `__reduce__`;
  - names: functions with the same `__name__` in different modules / classes (qualnames), lambdas, names that are prefixes of each other, 10+ usages (f<<9>> / f<<10>>), parameter names equal to node names or to tag names, a DAG parameter called like an option (`twz_tag`...), tags that are tuples / equal to an id / not strings, dotted names inside nested DAGs;
  - order and identity: iteration order of dicts / sets / sorted() ties (string vs insertion order, dependence on PYTHONHASHSEED), `is` vs `==`, shallow vs deep copies leading to state shared between two DAG objects / two calls / two executors, ids of objects re-used after garbage collection, caching keyed by id / name / hash, results kept alive or dropped too early, mutation of an argument or a default in place by the library.
The violation must be shown through the public behaviour named in the property (not just "an internal attribute differs").""",
    9: """This is the NINTH round for this property; code paths, configurations, histories, feature interactions and value / name / identity dependence have been covered thoroughly (see the list below). This round is about RE-ENTRANCY, ENVIRONMENT and LIFECYCLE: make a SMALL and SUBTLE change (ideally <= 6 changed lines) whose effect only shows in one of these situations - all of them legal uses:
  - re-entrancy: a node function that itself calls another DAG / the same DAG object / an executor / a decorated function / builds a DAG (`@dag` inside a node), a DAG object used as the function of a node (`xn(inner_dag)`), a describing function that calls a DAG or reads `dag.results` while it is being traced, recursion through nested DAGs;
  - where the call comes from: a worker thread instead of the main thread (what "main-thread" means then), several threads taking turns on one DAG, a sync DAG called from inside a running event loop or from a coroutine's `to_thread`, an AsyncDAG awaited in several event loops one after the other (`asyncio.run` twice), in a loop with a custom default executor, with `uvloop`-like policies absent; calls made at interpreter shutdown / from `atexit`; `contextvars` seen by node functions;
  - lifecycle of objects: deepcopy / pickle (dill) / `copy.copy` of a DAG, an AsyncDAG, an executor or a decorated function BEFORE and AFTER calls, setup, config reloads or failures, and using the copy next to the original; DAG objects created in a loop (hundreds) and dropped; the same describing function decorated twice; a DAG re-built from the same source in the same process; module reload;
  - cleanup: what is left behind after a call that raised, was cancelled (`task.cancel()` on an awaited AsyncDAG, `asyncio.wait_for` timeout), or was interrupted (KeyboardInterrupt raised in a node of the main thread): pools, tasks, tracing state (`is_describing_dag` / the description lock / module-level registries), half-written cache files - and whether the NEXT call of the same or another DAG behaves.""",
    10: """This is the TENTH round for this property. This round is about the REPAIRS that were made to the library recently: run `git -C <your worktree> log --oneline -25 -- tawazi` and read the commits whose message starts with "fix:" (`git show <commit>`); each of them repaired a defect and NONE of them came with a regression test, so the test suite does not protect them. Make a SMALL and SUBTLE change (ideally <= 6 changed lines) that RE-INTRODUCES the defect one of these commits repaired - or a close relative of it - in a way that breaks YOUR property:
  - not a plain revert of the commit: re-introduce the defect only for a special case (one resource, one flavour - AsyncDAG vs DAG, executor vs plain call -, one alias form, negative / zero values, reused functions `f<<1>>`, nested DAGs, the second call, after a config reload, after a deep copy ...), or through a different line than the one the fix touched (a refactoring that bypasses the repaired code path, a helper that duplicates the old logic, a cache in front of the repaired function, a changed default / argument order at a call site of the repaired function);
  - or break the repair's own assumptions (the fix sorts / copies / converts something: feed it the case where sorting / copying / converting is not enough);
  - if none of the repairs is related to your property, fall back to any change of the kinds asked for in earlier rounds that is not in the list below.
Say in notes.md which repair (commit hash) your change undermines.""",
    11: """This is the ELEVENTH round for this property; single features, interactions, values / names / identity, environments, lifecycles and partial regressions of the recent repairs have been covered (see the list below). This round is about THRESHOLDS, SIZES and COUNTS: make a SMALL and SUBTLE change (ideally <= 6 changed lines) that is correct for everything small and only breaks the property BEYOND A THRESHOLD - the kind of mistake that comes with an optimisation, a bounded cache, batching, a hard-coded limit or an off-by-one that small examples never reach:
  - size of the DAG: more than 16 / 32 / 64 / 100 nodes, a level wider than max_concurrency * k, a chain deeper than 50 / the recursion limit, more than 9 usages of one function (`f<<9>>` vs `f<<10>>`), more than 5 positional / keyword arguments or dependencies of one node, nesting deeper than 2 or 3 levels, more than 3 DAGs nested in one outer DAG, many setup / debug nodes, many tags on one node, many nodes under one tag;
  - counts over time: the 10th / 100th call of one DAG object, more than 8 executors of one DAG, more than 32 / 128 DAGs built in one process (`functools.lru_cache(maxsize=...)` or a dict that is trimmed), many reloads of a configuration, many awaits of one AsyncDAG in one loop (more than the default executor's workers, more than 100 tasks);
  - magnitudes: priorities >= 1000 or beyond 2**31 / 2**63 or floats, max_concurrency >= 9 or larger than the number of nodes, very long ids / tags, large results (a pickle beyond 64 KiB in the cache file), unpack_to >= 4, key paths longer than 2;
  - batching / chunking: submitting nodes in groups of k, waiting for groups, `itertools.islice`, slices like `[:32]`, `heapq.nlargest(k, ...)`, `sorted(...)[:k]`, early exits after k iterations.
The demo may of course use the size it needs; keep its run time under a minute.""",
}


def main():
    rnd = int(sys.argv[1])
    props = {}
    for line in open(os.path.join(ROOT, "properties.jsonl")):
        line = line.strip()
        if line:
            p = json.loads(line)
            props[p["id"]] = p
    desc = json.load(open(os.path.join(ROOT, "tools", "seed_descriptions.json")))
    os.makedirs("/tmp/agent_prompts", exist_ok=True)
    for pid, p in sorted(props.items()):
        wt = "/tmp/wt%d_%s" % (rnd, pid)
        out = "/tmp/agent%d_out_%s" % (rnd, pid)
        prev = []
        for k in range(1, 2 * (rnd - 1) + 1):
            d = desc.get("%s-%d" % (pid, k))
            if d:
                prev.append("  (%s) %s (needs: %s)" % (chr(ord("a") + len(prev)), d["what"], d["needs_to_manifest"]))
        text = """You are helping to evaluate a verification harness for the Python library mindee/tawazi (a pure-Python DAG scheduler: functions decorated with @xn are traced inside a @dag describing function into a dependency graph and run on a thread pool / asyncio with priorities, is_sequential flags, resources and a max_concurrency limit).

Your private scratch git worktree of the repository is {wt} (source in {wt}/tawazi, tests in {wt}/tests). Work ONLY inside {wt} and {out}. Never read, write or cd into /repo or /verif. Nothing can be fetched from the network. NEVER use `git stash`, and NEVER kill processes by name (pkill / killall / kill of pids you did not start yourself: other people run pytest on this machine); if one of YOUR runs hangs, stop it with the timeout you started it under (always run the test suite as `timeout 300 ...`). Do not start more than a handful of threads / processes at once in your demos (the machine is shared).

IMPORTANT - how to run code against YOUR worktree (the venv has an editable install that points elsewhere, so always set PYTHONPATH):
  cd {wt} && PYTHONPATH={wt} /venv/bin/python -c "import tawazi; print(tawazi.__file__)"    # must print {wt}/tawazi/__init__.py
  cd {wt} && PYTHONPATH={wt} timeout 300 /venv/bin/python -m pytest -q -p no:cacheprovider --no-cov --timeout=120 2>&1 | tail -5      # existing test suite (~20 s, 353 tests; tests.test_resource::test_main_thread_resource_computation_time and the timing tests in tests/test_execution_time.py / tests/test_profiling.py are known to be flaky when the machine is loaded - re-run once before concluding)

THE PROPERTY (a guarantee users of tawazi rely on):
  id: {pid}
  title: {title}
  statement: {statement}
  quantified over: {quant}

YOUR TASK: produce TWO different, realistic code changes to the library (files under {wt}/tawazi only), each of which BREAKS this property while (a) the package still imports and (b) the complete existing test suite still passes with the change. Think of the kind of mistake a maintainer could plausibly make in a refactoring, an optimisation or a "small cleanup" - not sabotage that is obviously malicious and not a change that ordinary use would expose at once.

{focus}
The two changes must be different in mechanism.

Changes already collected for this property in earlier rounds - do NOT repeat them or trivial variants of them:
{prev}

For EACH change k in {{1, 2}} deliver, in {out}/change<k>/ :
  1. patch.diff   - the output of `git -C {wt} diff` for that change alone (start each change from a clean tree: `git -C {wt} checkout -- .`).
  2. demo.py      - a small stand-alone program (imports only tawazi and the standard library) that exits 0 and prints PASS on the ORIGINAL code and exits 1 (prints FAIL and what was observed) WITH the change applied. It must fail because the property is violated (observable through tawazi's public behaviour: returned values, which functions ran, in what order / on which thread / how many at once, exceptions raised...), not because of an unrelated crash. If the violation depends on timing, make the demo deterministic (threading.Event handshakes or sleeps with generous margins, repeat a few times); make sure it is NOT flaky on the original code (no priority ties, no races). Note that tawazi's exceptions derive from BaseException.
  3. notes.md     - 5-15 lines: what the change does, why it breaks the property, what exactly is needed for it to manifest, and the exact commands you ran with their results: the test-suite tail with the change applied, demo.py on the original code (PASS) and with the change (FAIL).

Verify everything yourself before finishing: with the change applied run the whole test suite (it must pass - if a test fails reproducibly, pick another change) and demo.py (must FAIL); on the clean tree demo.py must PASS (run it 3 times). Leave the worktree clean at the end (`git -C {wt} checkout -- .`, remove files the test run created). Do not commit anything. Finish with a short summary of the two changes.
""".format(wt=wt, out=out, pid=pid, title=p["title"], statement=p["statement"], quant=p["quantifier"]["text"],
           focus=FOCUS[rnd], prev="\n".join(prev))
        with open("/tmp/agent_prompts/R%d_%s.txt" % (rnd, pid), "w") as f:
            f.write(text)
    print("wrote %d prompts for round %d" % (len(props), rnd))


if __name__ == "__main__":
    main()
