#!/bin/bash
# Run the quick checks of the properties that have a repaired defect against the PINNED snapshot of /repo (the first commit, before
# any "fix:" commit), in a scratch worktree: every one of them must report violations there ("a fixed entry suppresses nothing").
cd "$(dirname "$0")/.."
base=$(git -C /repo log --format=%h | tail -1)
wt=$(mktemp -d /tmp/twzsnap_XXXX)/repo
git -C /repo worktree add -q --detach $wt $base || exit 2
rc_all=0
for p in ${@:-C06 C07 C09 C10 C11 C13 C14 C15 C16 C18 C19 C20}; do
  out=$(TWZ_REPO=$wt TWZ_EVIDENCE_DIR=$wt/../evidence TWZ_REPLAY_DIR=$wt/../replays /venv/bin/python check.py $p --tier quick 2>&1); rc=$?
  echo "$p rc=$rc $(echo "$out" | grep -o 'mechanism=[a-z_A-Z():.]*' | sort -u | wc -l) distinct mechanisms; $(echo "$out" | tail -1 | cut -c1-110)"
  [ $rc -eq 1 ] || rc_all=1
done
git -C /repo worktree remove --force $wt; rm -rf $(dirname $wt)
exit $rc_all
