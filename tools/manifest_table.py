"""Source table for MANIFEST.json (see mkmanifest.py)."""

TB_SCHED = (
    "trusted: CPython 3.12 stdlib (ThreadPoolExecutor, concurrent.futures.wait, asyncio) and the monitor itself; the dependency "
    "graph, selection closure, activity and expected values come from the generated program and its plain-Python reference run, "
    "never from tawazi's own structures; decided only on the executions produced (bounds in the evidence file)"
)

CHECKS = {
    "C02": dict(
        engine="twzmon.sched", level="exploration", design_ref="DESIGN.md 4-C02, 2.3, 2.8",
        technique="runtime monitor over boundary event log + completion-order controller (random + exhaustive DFS)",
        text="every execution produced by the generators is checked event by event: XENTER(x) must be preceded by XEXIT(d) of every "
        "participating dependency d (positional, keyword, activation flag) and the probe's received argument terms must be identical "
        "(interned symbolic terms) to the reference run's; completion orders are chosen by the controller, exhaustively on small shapes",
        note=TB_SCHED,
    ),
    "C03": dict(
        engine="twzmon.sched", level="exploration", design_ref="DESIGN.md 4-C03",
        technique="runtime monitor: per call-site entry counters vs. closure/activity oracle",
        text="for every normally completed execution (whole DAG and target/exclude/root executors) the FENTER count of each call site "
        "must be 1 if selected, active and not precomputed, else 0; reused functions are separate call sites",
        note=TB_SCHED,
    ),
    "C04": dict(
        engine="twzmon.sched", level="exploration", design_ref="DESIGN.md 4-C04",
        technique="runtime monitor: in-flight counter at every SUBMIT/TASK_NEW + thread identity of every probe entry",
        text="at every dispatch decision of a pooled node the number of decided-and-unfinished pooled nodes must be <= max_concurrency; "
        "pooled probes must run on a worker of this execution's pool, main-thread probes on the invoking thread, never overlapping",
        note=TB_SCHED,
    ),
    "C05": dict(
        engine="twzmon.sched", level="exploration", design_ref="DESIGN.md 4-C05",
        technique="runtime monitor: interval-overlap check on FENTER/FEXIT sequence numbers under parked probes",
        text="no other probe interval may intersect the [FENTER, FEXIT] interval of a sequential node; parked probes make an illegal overlap "
        "certain to be observed rather than timing dependent",
        note=TB_SCHED,
    ),
    "C06": dict(
        engine="twzmon.sched", level="exploration", design_ref="DESIGN.md 4-C06, 2.8",
        technique="runtime monitor: at every dispatch decision compare against the scheduler-knowable ready set and the spec compound priority",
        text="at every decision(x) no node of ready_certain (all dependencies delivered by a wait return or pruned, itself undecided) may "
        "have a strictly greater spec compound priority (own + set of descendants of the full DAG); whole-DAG calls and executors",
        note=TB_SCHED,
    ),
    "C07": dict(
        engine="twzmon.cp", level="exploration", design_ref="DESIGN.md 4-C07",
        technique="exhaustive small-DAG enumeration under several PYTHONHASHSEEDs: table oracle + observed order at max_concurrency=1",
        text="every DAG on <=5 (thorough: <=6) topologically numbered nodes with power-of-ten priorities: the table used for scheduling equals "
        "own + sum over the set of descendants for call / executor(target|root|exclude) / after config_from_dict, in processes with "
        "different hash seeds, and the observed entry order at max_concurrency=1 equals the unique greedy order",
        note="trusted: networkx.descendants in the monitor's own spec computation; the table is read from DiGraphEx.compound_priority "
        "(internal attribute), the order clause is API-level",
    ),
    "C08": dict(
        engine="twzmon.sched", level="exploration", design_ref="DESIGN.md 4-C08",
        technique="runtime monitor at every blocking wait call; known mixed-resource double wait classified by mechanism",
        text="at every blocking WAIT_CALL: in-flight < max_concurrency and a ready node and no sequential node running and no sequential "
        "best candidate is a violation; ALL_COMPLETED waits are stepped one completion at a time; the documented mixed thread+async "
        "double wait is reported as KNOWN-FINDING by mechanism, anything else is a VIOLATION",
        note=TB_SCHED,
    ),
    "C09": dict(
        engine="twzmon.sched", level="fault_enumeration", design_ref="DESIGN.md 4-C09, 2.4",
        technique="bounded-progress monitor: sys.monitoring loop-iteration counter, deadlock detection inside the patched waits, OP_END reach; faults x orders enumerated",
        text="liveness restated as bounded progress: scheduler loop iterations <= 10N+20, no wait on futures none of which can ever finish, "
        "every operation reaches OP_END, a normal return implies every selected active node ran; fault position x completion order "
        "enumerated on small shapes",
        note=TB_SCHED + "; an unbounded 'eventually' cannot be decided by a finite run",
    ),
    "C14": dict(
        engine="twzmon.sched", level="fault_enumeration", design_ref="DESIGN.md 4-C14",
        technique="fault injection in probes x controlled completion orders; monitor on the raised exception and on decisions after the failure delivery",
        text="for 1-2 failing call sites of any resource: the call raises TawaziBaseException naming node id and call location with the "
        "injected exception as cause; no descendant of a failed node has a decision; no decision after the wait return that delivered the "
        "failure; any other exception without an injected fault is an internal error",
        note=TB_SCHED,
    ),
}

ENGINES = [
    {"name": "twzmon.sched", "path": "twzmon/sched.py", "serves_properties": ["C02", "C03", "C04", "C05", "C06", "C08", "C09", "C14"],
     "kind_free_text": "completion-order controller + event-log monitors (runtime monitoring)"},
    {"name": "twzmon.cp", "path": "twzmon/cpjobs.py", "serves_properties": ["C07"],
     "kind_free_text": "exhaustive small-DAG compound-priority oracle under hash-seed sweep (runtime monitoring)"},
]

NOT_APPLICABLE = [
    {"property_id": p, "reason": "check not built yet in this session (work in progress, see DESIGN.md section 4); not claimed"}
    for p in ["C01", "C10", "C11", "C12", "C13", "C15", "C16", "C17", "C18", "C19", "C20"]
]

TB_DIFF = (
    "trusted: the reference = the same generated source text exec-ed with plain callables (CPython semantics), hash-consed symbolic "
    "terms compared by identity; decided only on generated programs of the stated fragment and bounds"
)
CHECKS.update({
    "C01": dict(
        engine="twzmon.diff", level="exploration", design_ref="DESIGN.md 4-C01, 2.2",
        technique="differential runtime monitoring: same source text run under tawazi and as plain Python, symbolic values compared by identity",
        text="each generated describing function is executed under tawazi (random max_concurrency, attributes via decorator or "
        "config_from_dict/yaml/json, sync/async, controlled random completion orders) and as plain Python; returned value, per-function "
        "execution counts and per-call-site argument terms must agree",
        note=TB_DIFF,
    ),
    "C10": dict(
        engine="twzmon.diff", level="exploration", design_ref="DESIGN.md 4-C10",
        technique="differential runtime monitoring with per-flagged-call-site entry monitors",
        text="flag-heavy programs (all flag forms and positions): a flagged call site is entered iff its flag is truthy in the reference run, "
        "deactivated results are None, dependents run and receive None, a deactivated nested DAG runs none of its nodes and yields None "
        "outputs; one recorded known finding (keyed outputs of a deactivated nested DAG) is classified by mechanism",
        note=TB_DIFF,
    ),
    "C20": dict(
        engine="twzmon.diff", level="exploration", design_ref="DESIGN.md 4-C20",
        technique="differential runtime monitoring on nesting-heavy programs (depth <= 3), shared functions inside/outside inner DAGs",
        text="outer DAG value, execution counts and per-call-site arguments (prefixed node ids predicted by the monitor) must equal the plain "
        "evaluation where inner describing functions are ordinary functions; explicit arguments override defaults, omitted ones default",
        note=TB_DIFF,
    ),
})
ENGINES.append({"name": "twzmon.diff", "path": "twzmon/diffjobs.py", "serves_properties": ["C01", "C10", "C20"],
                "kind_free_text": "program generator + double execution of the same source text (runtime monitoring, differential oracle)"})
NOT_APPLICABLE[:] = [x for x in NOT_APPLICABLE if x["property_id"] not in CHECKS]

TB_HIST = (
    "trusted: the sequential model of the instance state (setup id -> first value / nothing else survives a call) and the plain-Python "
    "reference; operations are recorded at the client boundary (call before invoke, return after reply); decided on generated histories only"
)
CHECKS.update({
    "C12": dict(
        engine="twzmon.sel", level="exploration", design_ref="DESIGN.md 4-C12",
        technique="runtime monitor: executed set (probe entries) and returned tuple vs. the monitor's own three-step closure; exhaustive small shapes x triples",
        text="every (R, X, T) triple on every DAG with <=3 (thorough <=4) nodes, sampled triples on larger DAGs, through id / ExecNode / tag aliases "
        "(shared tags, tag equal to another node's id), with and without setup nodes: executed set == documented closure, returned values "
        "real or None, invalid triples raise ValueError and run nothing",
        note=TB_SCHED,
    ),
    "C13": dict(
        engine="twzmon.sel", level="exploration", design_ref="DESIGN.md 4-C13",
        technique="runtime monitor: probe entries of debug / non-debug nodes under both RUN_DEBUG_NODES settings for the same operation",
        text="flag off: no debug node entered in call / executor(any selection) / setup; flag on: whole-DAG call enters every debug node once, a "
        "pulled-in debug node has all inputs executed; non-debug executed set, inputs and values identical in both settings; illegal DAG rejected",
        note=TB_SCHED,
    ),
    "C11": dict(
        engine="twzmon.hist", level="exploration", design_ref="DESIGN.md 4-C11",
        technique="history monitor against a small sequential model of setup state (unique invocation numbers make reuse vs recompute observable)",
        text="random histories over {call, executor(sel), setup(), setup(sel), deepcopy} in both flavours: each setup node entered at most once per "
        "instance, only the setup nodes the selection needs, later executions return the first value, deep copies independent, illegal setup "
        "dependencies rejected at build",
        note=TB_HIST,
    ),
    "C15": dict(
        engine="twzmon.hist", level="exploration", design_ref="DESIGN.md 4-C15",
        technique="history monitor: every call after a random history must equal the reference for its own fresh argument nonces; executor second runs judged by the single-use rule",
        text="histories with partial-argument calls, executors, compose, config reloads, failing calls, missing/surplus arguments, executor retries: the "
        "next call returns the reference value and executes exactly the active call sites; a second executor run raises TawaziUsageError or "
        "executes its complete selection with the right value",
        note=TB_HIST,
    ),
    "C18": dict(
        engine="twzmon.hist", level="exploration", design_ref="DESIGN.md 4-C18",
        technique="runtime monitor on (caching run, restart run) pairs: probe entries vs. keys of the pickle, value vs. un-cached reference",
        text="caching selection in {whole, targets, cache_deps_of} x restart selection: no node whose id is in the cache file is entered, executed "
        "set == selection minus cached, value == un-cached reference, cache_deps_of file holds all ancestors of n but not n",
        note=TB_HIST,
    ),
})
ENGINES.append({"name": "twzmon.sel", "path": "twzmon/seljobs.py", "serves_properties": ["C12", "C13"],
                "kind_free_text": "selection / debug-node monitors over probe entry events (runtime monitoring)"})
ENGINES.append({"name": "twzmon.hist", "path": "twzmon/histjobs.py", "serves_properties": ["C11", "C15", "C18"],
                "kind_free_text": "history generator + sequential model checker over client-boundary operation records (runtime monitoring)"})
NOT_APPLICABLE[:] = [x for x in NOT_APPLICABLE if x["property_id"] not in CHECKS]

CHECKS.update({
    "C16": dict(
        engine="twzmon.conc", level="exploration", design_ref="DESIGN.md 4-C16, 2.6",
        technique="multi-threaded stress + deterministic build/call overlap by handshake + lockset (Eraser-style) monitor on the build tables + per-execution monitors per token",
        text="2..16 threads calling one DAG with distinct nonces (own reference value each, C02-C05 monitors per execution token); a build paused "
        "inside its describing function while other threads call a DAG / a decorated function / build; concurrent builds under a 1e-6 "
        "switch interval; fingerprints of DAGs built concurrently equal those built alone; no access to the build tables by a thread "
        "that does not own the build lock",
        note="trusted: CPython threading, the handshake events of the harness; pre-emption points inside tawazi are sampled, not enumerated",
    ),
    "C17": dict(
        engine="twzmon.conc", level="exploration", design_ref="DESIGN.md 4-C17",
        technique="differential run of both flavours + gathered awaits with unique nonces + loop-liveness handshake whose time-out only triggers stack sampling of the loop thread",
        text="same source as DAG and AsyncDAG: equal value, entered call sites and setup results; 2..100 concurrent awaits each get their own "
        "reference value; an async-thread probe asks a sibling coroutine of the same loop for service - a blocked loop is convicted by 20 "
        "stack samples of the loop thread inside tawazi, never by the clock alone",
        note="trusted: asyncio; only sustained blocking of the loop is detectable (a scheduler that blocks the loop for a bounded slice per "
        "wait still serves the handshake and is not convicted)",
    ),
    "C19": dict(
        engine="twzmon.comp", level="exploration", design_ref="DESIGN.md 4-C19",
        technique="differential runtime monitoring: composed DAG vs. reference run of the original source with the input call sites overridden; ValueError oracle; original fingerprint before/after",
        text="random (inputs, outputs) pairs through every alias form and Ellipsis on generated DAGs: composed(values) == substituted pipeline, "
        "executed set == what the outputs need stopping at the inputs, ValueError exactly for ambiguous alias / input depending on input / "
        "missing required input, original unchanged (structure, value, executed set)",
        note=TB_DIFF,
    ),
})
ENGINES.append({"name": "twzmon.conc", "path": "twzmon/concjobs.py", "serves_properties": ["C16", "C17"],
                "kind_free_text": "thread / await stress, deterministic build overlap, lockset monitor, loop-liveness handshake (runtime monitoring)"})
ENGINES.append({"name": "twzmon.comp", "path": "twzmon/compjobs.py", "serves_properties": ["C19"],
                "kind_free_text": "compose oracle (runtime monitoring, differential)"})
NOT_APPLICABLE[:] = [x for x in NOT_APPLICABLE if x["property_id"] not in CHECKS]

# ---- texts refreshed after the seeded-change rounds (workloads were widened, see DESIGN.md section 12) --------------------
_EXTRA = {
    "C02": " Workloads: flat shapes under the completion-order controller (random + exhaustive DFS), nested programs (depth 2) with the "
           "per-call-site argument clause, post-build / between-call reconfiguration, None-returning and indexed opaque results, the "
           "repository's own tests under the spec-free monitors (W3).",
    "C03": " Also: nested programs with per-call-site entry counters (prefixed ids predicted by the monitor), histories with setup()/"
           "setup([])/deferred executors/deepcopy, executors re-run after tawazi and non-tawazi failures, W3.",
    "C04": " Also: max_concurrency / resource reconfiguration after the build, every pool created during one operation counted together, "
           "timed waits may expire (injected), nested programs and W3 under the spec-free monitors.",
    "C05": " Also: target/exclude/root executors, partial reconfiguration, sequential functions inside nested DAGs judged by the generator's "
           "own knowledge, W3.",
    "C06": " Also: call/reload/call on one object, actual start of queued nodes judged against deliveries made meanwhile (controlled runs).",
    "C07": " Also: RUN_DEBUG_NODES on + target, composed DAGs, executors created after a reload with an already used selection, executors "
           "re-run after a failure, priority 0.",
    "C08": " Also: ALL_COMPLETED waits judged completion by completion with hypothetical deliveries, every dispatched node must be running "
           "when the scheduler blocks (controlled runs), setup nodes and explicit setup() operations, re-used pools.",
    "C09": " Also: executor re-runs (a normal return with a selected active node not run), default step limit on every workload, hang watchdog "
           "with stack-sampling verdict.",
    "C14": " Also: profiling on, frame-less builds (original exception expected), BaseException faults, W3.",
}
for _k, _v in _EXTRA.items():
    CHECKS[_k]["text"] += _v
CHECKS["C16"]["text"] += (" Also: call sites sharing one activation flag raced by threads with flags of different truthiness (flag evaluation is a "
                          "pre-emption point), identical thread names, defaults intact after the concurrent calls, a shared DAG with a setup node "
                          "must not block on a paused build, sys.monitoring LINE-event yield injection inside tawazi's build/scheduling code.")
CHECKS["C17"]["text"] += (" Also: gathers with unset setup nodes and with one failing await next to a bystander coroutine, identical call/toggle/"
                          "reload histories on a DAG and an AsyncDAG, liveness handshake with one failing and one running async-thread node.")
CHECKS["C18"]["text"] += (" Also: several cache_deps_of nodes, the same path rewritten and restarted from, re-caching restarts, an executor first "
                          "called before the file exists, setup nodes (instance-level model), None results.")
CHECKS["C19"]["text"] += (" Also: is_async / max_concurrency overrides, refused composes attempted without judging the outcome (the original must "
                          "stay intact), None / falsy defaults.")
CHECKS["C11"]["text"] += (" Also: deferred executors, configuration reloads naming setup nodes, controller-chosen completion orders, None-returning "
                          "setup functions, a setup node inside a nested DAG.")
CHECKS["C12"]["text"] += " Also: empty-list selections, keyed return values of unselected nodes, tags that are substrings of other tags / contain node ids."
CHECKS["C13"]["text"] += " Also: illegal builds through keyword / activation-flag dependencies, failing debug nodes, debug nodes inside nested DAGs built under the other flag value."
CHECKS["C15"]["text"] += " Also: composes with node inputs and keyword uses, BaseException faults, activation flags that are defaulted DAG arguments."
CHECKS["C01"]["text"] += " Also: decorated functions failing on both sides (the DAG call must raise whenever plain Python does), whole-DAG executors, profiling on, rejected descriptions between builds."
CHECKS["C10"]["text"] += " Also: per-call twz_unpack_to, indexed opaque (possibly falsy) results, rejected descriptions between builds."
CHECKS["C20"]["text"] += " Also: containers of nested DAGs passed on unchanged (type-strict), sequential behaviour of nested nodes, rejected descriptions between builds."

NOTES = (
    "Technique family: runtime monitoring. Compiler sanitizers / TSan / valgrind do not apply (pure Python); their Python-level "
    "analogues are used (lockset monitor, forced pre-emption, stack sampling). Exit codes: 0 held on everything explored, 1 VIOLATION, "
    "3 inconclusive (never a VIOLATION line). known_findings.json lists genuine defects by mechanism."
)


# additions of round 4 (appended to the texts above by mkmanifest)
EXTRA_TEXT = {
    "C01": "; identity-sensitive uncopyable arguments and constants, constants whose truthiness changes between description and call, "
           "tuple-keyed tables, inner DAGs sharing one __name__ or obtained through compose(); plus call histories on one object (both flavours)"
           "; values that may only be passed on (inspection recorded with its stack), short-lived fresh-float elements, a wildcard constant / default equal to everything"
           "; node functions of main-thread and async-thread nodes see the caller's ContextVar; calls made inside node functions of another DAG, by worker threads, in a second event loop, on deepcopy / dill copies",
    "C02": "; a dependency that RAISED has not finished either (fault jobs); executor re-run histories"
           "; identity-carrying results: a consumer handed a COPY is a violation; pass-through results (two results are one object); twin functions of one qualified name; composed DAGs (inputs in any order); selections as one-shot iterators"
           "; re-wired twins built after the first DAG was dropped (id()-keyed caches); calls by worker threads and from node functions"
           "; medium-scale shapes (40..170 call sites), call sites with 33..70 dependencies, key paths of up to six steps, chains deeper than the recursion limit",
    "C03": "; the selection workload (ids of reused functions, tags incl. substrings / id-spelled ones, references, tuples), the debug-node "
           "workload (flag off) and the cache-restart workload also run here with their 'entered although it must not' clauses"
           "; selections handed over as one-shot iterators / generators / tuples"
           "; the build-overlap workload (a DAG described while other threads describe / call DAGs holds exactly its own call sites); executors created before a reload of is_sequential"
           "; medium-scale shapes; selections deep inside chains of 1100..1500 nodes",
    "C04": "; nodes are declared in every documented form (decorator / xn(f, **options) call form, options left to the process defaults "
           "taken from the environment); 12% of the cases schedule a DAG obtained through compose(..., max_concurrency=k)"
           "; configuration profiles re-applied as the same dict objects (A, B, A); two decorated functions of one qualified name with own options; functools.partial node functions"
           "; calls made by a thread that is not the main thread and from node functions of another DAG; deep / shallow copies around reloads"
           "; medium-scale shapes; one level of hundreds of independent nodes",
    "C05": "; decorator-level tags and configuration BY TAG (a tag wins over an equally spelled node id), through dict / yaml / json"
           "; is_sequential spelled 1 / 0 in configurations; profiles A, B, A"
           "; executors created before a reload that only changes is_sequential; deep copies configured differently"
           "; a sequential function above a level of hundreds of nodes / beside a chain of hundreds of nodes (node bodies take a moment)",
    "C06": "; plus the tie-free max_concurrency=1 order workload of C07 (debug nodes re-attached, composed, re-configured, retried, "
           "boundary priority vectors); exhaustive completion orders also through executor selections"
           "; tags that are substrings of each other"
           "; medium-scale shapes; priorities 2**60 + 2**i",
    "C07": "; signed priorities, vectors summing to 0 / without a positive entry, partial re-configurations followed by a second one, "
           "repeated calls with debug nodes off"
           "; priority profiles switched A, B, A with the same dict object"
           "; the same describing function decorated a second time keeps the declared priorities"
           "; priorities 2**60 + 2**i",
    "C08": "; executor selections followed by whole calls on one object"
           "; an await next to a busy one-worker default executor of the application hands nothing to that executor"
           "; max_concurrency up to 14 on levels wider than that",
    "C09": "; setup() / executor.setup() histories: a setup operation that returns normally has run its selection; DAGs of 150..900 nodes "
           "(chain, fan, grid, tree) within the same step bound"
           "; node failures of varying exception classes incl. BaseException / asyncio.CancelledError / StopIteration"
           "; several event loops, busy default executor, an await after a cancelled await whose straggler is still in its thread"
           "; one level of more than 256 ready nodes",
    "C10": "; plus histories on DAGs whose flags are results of setup nodes (partial setup, executors, calls, copies)"
           "; many flags that are short-lived temporaries (fresh floats from indexing a lazy sequence)"
           "; constant flags whose truthiness depends on the thread that evaluates them"
           "; almost-zero floats as flags; one wide level of independent flagged nodes with max_concurrency up to 16; compose workload",
    "C11": "; executor(T).setup() in both flavours, tag aliases, 13 x 2 illegal setup-dependency variants, flags fed by setup results, "
           "an executor started from ANOTHER instance's cache file"
           "; setup results whose identity matters (a copy handed to a consumer is a violation); setup nodes fed by an INDEXED DAG argument",
    "C12": "; functions reused at several sites with prefix-related names (ids f<<k>> as aliases), tuples of aliases, consecutive selections "
           "on one object with setup results, RUN_DEBUG_NODES on (no debug node in the shape)"
           "; selections naming the decorated function object itself; one-shot iterators"
           "; what an inner DAG had set up before the outer DAG was described is already computed for the outer one"
           "; wide DAGs with a tag shared by more than 16 nodes and selections of up to 25 ids; selections deep inside chains of 1100..1500 nodes",
    "C13": "; cache_deps_of executors are an execution mode too; a rejected legal DAG is a verdict; priority-only reloads naming debug nodes; "
           "the switch given through the environment of fresh processes"
           "; prefix-named functions (debug id a prefix of a production id and vice versa); uncopyable constant objects as inputs"
           "; runs on deep copies of the DAG",
    "C14": "; identification clause per node kind (job c14_loc): one statement per line, every node in turn fails (plain / operator / "
           "reflected operator / unary / and_ or_ not_ / method / nested) and the exception must name that node, its exact file:line "
           "(also for files whose path merely starts like the tawazi package) and carry the injected exception (one, several, no args) as cause"
           "; the class of the failure varies (StopIteration / KeyError / TimeoutError / BaseException / CancelledError), a third raised `from` a lower-level exception (the NODE's exception must be the cause); fault-free repeated calls with setup nodes (some return None)"
           "; failures inside medium-scale shapes",
    "C15": "; dag.max_concurrency must stay what the user configured last; setup-history workload (a None left for an unselected setup node is "
           "leaked state); k-th call schedules like the first (tie-free order workload)"
           "; IF a DAG with an argument-fed setup node builds, the second call must not mention the first call's argument; a restart reads the cache file as it is now (same path re-written)"
           "; deepcopy / dill copies in call histories, an await after a cancelled await, DAG objects used as node functions keep their own state, busy default executor"
           "; histories of 30..140 operations; inner DAG objects called directly after they were nested",
    "C16": "; the shared DAG of both the concurrent-call and the build-overlap workload may be an AsyncDAG; warnings are recorded by the main thread"
           "; re-entrancy: node functions of an outer DAG that call (or build and call) another DAG, DAG objects as node functions (re-configured, nested), calls by non-main threads",
    "C17": "; capacity phase: more concurrent awaits than the loop's default executor has workers, all inside their node together; executor steps "
           "in the DAG-vs-AsyncDAG history; liveness after a priority-only reload"
           "; the setup histories (executor(T).setup(), tags spelled like ids) on AsyncDAGs only"
           "; several event loops, one-worker and busy default executors, cancelled awaits (nothing new dispatched afterwards, the next await does not depend on the straggler), caller's context",
    "C18": "; defaulted DAG input omitted by the restart when the file holds it; restart executor built before setup(); re-caching into the same "
           "file; 'the file holds every result of the execution that wrote it'; debug sinks with the flag on (model-free clauses)"
           "; tags (incl. id-spelled) and selections spelled by tag / id / node reference / iterator; DAGs returning constants and their argument (restart on a RE-BUILT DAG); results that are one object stay one object after the restart"
           "; a failing caching run on an existing file leaves it usable; caching run and restart awaited in one event loop",
    "C19": "; tags spelled like another node's id; constant OBJECTS (identity-sensitive, uncopyable) taken from the original"
           "; parameter names in no alphabetical order"
           "; compose() inside a describing function; aliases given as decorated functions of a second build"
           "; pipelines of 90..130 call sites; a result passed twice to one call",
    "C20": "; inner DAGs sharing one __name__, inner DAGs obtained through compose(), identity-sensitive constants as nested-DAG arguments"
           "; DAGs with DAG-object nodes nested in an outer DAG; nested calls while other threads build DAGs"
           "; inner DAGs with prefix-related names; an inner DAG that is a chain of more than a thousand nodes; inner DAG objects called directly after they were nested",
}
