#!/usr/bin/env python3
"""Merge the hand-written one-line descriptions into seeded/*/meta.json and print the kill table (markdown)."""
import glob
import json
import os

ROOT = os.path.dirname(os.path.dirname(os.path.abspath(__file__)))
desc = json.load(open(os.path.join(ROOT, "tools", "seed_descriptions.json")))
rows = []
for mp in sorted(glob.glob(os.path.join(ROOT, "seeded", "*", "meta.json"))):
    m = json.load(open(mp))
    sid = m["seed_id"]
    d = desc.get(sid, {})
    for k in ("what", "needs_to_manifest"):
        if k in d:
            m[k] = d[k]
    json.dump(m, open(mp, "w"), indent=1)
    caught = []
    for p, r in sorted(m.get("checks", {}).items()):
        if r.get("violation"):
            caught.append("%s (%s)" % (p, ", ".join(x.strip(",") for x in r.get("mechanisms", [])[:2])))
    status = "confirmed" if m.get("confirmed") else "NOT confirmed (tests_pass=%s demo=%s)" % (m.get("tests_pass_with_change"), m.get("demo_discriminates"))
    rows.append("| %s | %s | %s | %s | %s |" % (sid, m.get("what", "?"), m.get("needs_to_manifest", "?"), status, "; ".join(caught) or "**not caught**"))
print("| seed | change | needs to manifest | confirmed | caught by |")
print("|---|---|---|---|---|")
print("\n".join(rows))
