#!/usr/bin/env python3
"""Self-test catalogue (DESIGN 2.10): apply a small breaking edit to a scratch copy of /repo/tawazi and
run the named checks against it (TWZ_REPO points the workers at the copy). The copy is removed afterwards.

  tools/trymut.py list
  tools/trymut.py <mutant> [<PROP> ...]      (default: the properties the mutant is expected to break)
"""
import os
import shutil
import subprocess
import sys
import tempfile

ROOT = os.path.dirname(os.path.dirname(os.path.abspath(__file__)))
H = "tawazi/_dag/helpers.py"
G = "tawazi/_dag/digraph.py"
N = "tawazi/node/node.py"
D = "tawazi/_dag/dag.py"

MUTANTS = {
    "max_to_min": (H, "highest_priority_id = max(runnable_xns_ids", "highest_priority_id = min(runnable_xns_ids", ["C06"]),
    "own_priority_key": (H, "key=lambda id_: graph.compound_priority[id_])", "key=lambda id_: exec_nodes[id_].priority)", ["C06"]),
    "cap_gt": (H, "if running_threads() == max_concurrency or len(runnable_xns_ids) == 0:", "if running_threads() > max_concurrency or len(runnable_xns_ids) == 0:", ["C04"]),
    "pool_size_plus1": (H, "executor = ThreadPoolExecutor(max_workers=max_concurrency)", "executor = ThreadPoolExecutor(max_workers=max_concurrency + 1)", []),
    "count_only_threads": (H, "return len(conc_running) + len(async_running)", "return len(conc_running)", ["C04", "C05"]),
    "seq_no_predrain": (H, "if xn.is_sequential and running_threads() != 0:", "if xn.is_sequential and False:", ["C05"]),
    "seq_no_postwait": (H, "        if xn.is_sequential:\n            logger.debug(\"Wait for all", "        if False:\n            logger.debug(\"Wait for all", ["C05"]),
    "indegree_ge1": (G, "if self.in_degree[new_root_node] == 1", "if self.in_degree[new_root_node] >= 1", ["C02"]),
    "first_to_all": (H, "            conc_done, conc_running, runnable_xns_ids = wait_for_finished_nodes(\n                FIRST_COMPLETED, graph, conc_futures, conc_done, conc_running, runnable_xns_ids\n            )\n\n        # 3.",
                     "            conc_done, conc_running, runnable_xns_ids = wait_for_finished_nodes(\n                ALL_COMPLETED, graph, conc_futures, conc_done, conc_running, runnable_xns_ids\n            )\n\n        # 3.", ["C08"]),
    "no_result_call": (H, "        _ = futures[future_id].result()  # raise exception by calling the future\n        logger.debug(\"Remove ExecNode {} from the graph\", future_id)\n        runnable_xns_ids |= graph.remove_root_node(future_id)\n\n    return done, running, runnable_xns_ids\n\n\nasync",
                       "        logger.debug(\"Remove ExecNode {} from the graph\", future_id)\n        runnable_xns_ids |= graph.remove_root_node(future_id)\n\n    return done, running, runnable_xns_ids\n\n\nasync", ["C14"]),
    "no_cause": (N, "                    ) from e\n", "                    )\n", ["C14"]),
    "flag_not_dependency": (N, "        if self.active is not None:\n            deps.append(self.active)\n", "", ["C02"]),
    "block_even_if_runnable": (H, "if running_threads() == max_concurrency or len(runnable_xns_ids) == 0:", "if running_threads() >= 1 or len(runnable_xns_ids) == 0:", ["C08"]),
    "spin_no_wait": (H, "        if len(runnable_xns_ids) == 0:\n            logger.debug(\"No runnable Nodes available\")\n            continue\n",
                     "        if len(runnable_xns_ids) == 0:\n            logger.debug(\"No runnable Nodes available\")\n            runnable_xns_ids = set()\n            continue\n", []),
    "main_thread_to_pool_when_caller_is_not_the_main_thread": (H, "        if xn.resource == Resource.thread:", "        import threading as _t\n        if xn.resource == Resource.thread or (xn.resource == Resource.main_thread and _t.current_thread() is not _t.main_thread()):", ["C04", "C16"]),
    "touch_values": (N, "        if self.id in results:\n            return reduce(", "        if self.id in results and results[self.id] != ():\n            return reduce(", ["C01"]),
    "deepcopy_setup_writeback": (D, "                self.results[node_id] = result\n\n        return exec_nodes, results, profiles\n\n    def __call__", "                self.results[node_id] = deepcopy(result)\n\n        return exec_nodes, results, profiles\n\n    def __call__", ["C11"]),
    "main_thread_to_pool": (H, "        if xn.resource == Resource.thread:", "        if xn.resource in (Resource.thread, Resource.main_thread):", ["C04"]),
    "forget_successor": (G, "            if self.in_degree[new_root_node] == 1\n        }", "            if self.in_degree[new_root_node] == 1 and len(self) % 5 != 0\n        }", ["C09"]),
    "drop_subgraph_tables": (G, "        graph.debug.update(self.debug)\n", "", ["C13"]),
    "drop_subgraph_cp": (G, "        graph.compound_priority.update(self.compound_priority)\n", "", ["C06", "C07"]),
    "exclude_only_self": (G, "graph.remove_nodes_from(graph.multiple_nodes_successors(exclude_nodes))", "graph.remove_nodes_from(exclude_nodes)", ["C12"]),
    "roots_not_checked": (G, "if not set(root_nodes).issubset(set(graph.root_nodes)):", "if False:", ["C12"]),
    "debug_parent_any": (G, "if set(self.predecessors(successor_id)).issubset(set(leaves_ids)):", "if True:", ["C13"]),
    "tag_precedence": (D, "            if nodes:\n                return [node.id for node in nodes]\n", "            if nodes and alias not in self.exec_nodes:\n                return [node.id for node in nodes]\n", ["C12"]),
    "flag_keypath_ignored": (H, "return bool(xn.active.result(results))", "return bool(results[xn.active.id])", ["C10", "C01"]),
    "subdag_default_shadows": (D, "                    if to_subdag_id(id_) not in registered_input_ids\n", "", ["C20", "C01"]),
    "kwargs_key_mangle": (N, 'key.split(".")[-1]: uxn.result(results)', 'key: uxn.result(results)', ["C20", "C01"]),
    "return_list_as_tuple": (H, "        if isinstance(return_uxns, list):\n            return list(gen)", "        if isinstance(return_uxns, list):\n            return tuple(gen)", ["C01"]),
    "args_setdefault": (H, "            results.force_set(node_id, arg)", "            results.setdefault(node_id, arg)", ["C01"]),
    "async_wait_blocks_loop": (H, "    done_, running = await asyncio.wait(running, return_when=return_when)\n",
                               "    import time as _t\n    while not any(f.done() for f in running):\n        _t.sleep(0.001)\n    done_, running = await asyncio.wait(running, return_when=return_when)\n", ["C17", "C09"]),
    "async_wait_polls_loop": (H, "    done_, running = await asyncio.wait(running, return_when=return_when)\n",
                              "    import time as _t\n    _t.sleep(0.2)\n    done_, running = await asyncio.wait(running, return_when=return_when)\n", ["C17"]),
    "build_context_any_thread": (N, "    return exec_nodes_lock.locked() and describing_thread_ident == get_ident()", "    return exec_nodes_lock.locked()", ["C16"]),
    "no_build_lock": ("tawazi/_dag/constructor.py", "    with node.exec_nodes_lock:\n        node.describing_thread_ident = get_ident()", "    if True:\n        node.describing_thread_ident = get_ident()", ["C16"]),
    "shared_results_between_calls": (H, "    results = copy(results)\n    profiles", "    profiles", ["C15", "C16"]),
    "setup_recomputed": (D, "            if xn.setup and not xn.executed(self.results):\n                logger.debug(\"Setting result of setup ExecNode {} to {}\", node_id, result)", "            if False:\n                logger.debug(\"Setting result of setup ExecNode {} to {}\", node_id, result)", ["C11"]),
    "setup_deepcopied": (H, "        if x_nd.setup:\n            x_nodes_copy[id_] = x_nd", "        if False:\n            x_nodes_copy[id_] = x_nd", []),
    "presetup_keeps_nonsetup": (D, "            [node_id for node_id in graph if node_id not in self.graph_ids.setup_nodes]", "            [node_id for node_id in graph if False]", ["C11"]),
    "executor_no_graph_copy": (D, "            deepcopy(self.graph), self.results, *args\n        )\n\n        return self._post_call()\n\n\nclass Async", "            self.graph, self.results, *args\n        )\n\n        return self._post_call()\n\n\nclass Async", ["C15"]),
    "cache_not_loaded": (D, "                results.force_set(node_id, result)\n", "                pass\n", ["C18"]),
    "cache_deps_includes_n": (D, "id_: res for id_, res in results.items() if id_ not in non_cacheable_ids", "id_: res for id_, res in results.items()", ["C18"]),
    "compose_active_not_rewired": (D, "                if xn.active is not None and xn.active.id == old_id:", "                if False:", ["C19"]),
    "compose_shares_nodes": (D, "(in_id, deepcopy(self.exec_nodes[in_id])) for in_id in set_xn_ids if in_id not in in_ids", "(in_id, self.exec_nodes[in_id]) for in_id in set_xn_ids if in_id not in in_ids", ["C19"]),
    "compose_missing_input_not_checked": (D, "                    if pred in dag_inputs_ids:\n                        _raise_missing_input(pred)\n", "", ["C19"]),
    "skip_pruning_none": (H, "            results[xn.id] = None\n", "", ["C10", "C01"]),
}


def main():
    if len(sys.argv) < 2 or sys.argv[1] == "list":
        for k, v in MUTANTS.items():
            print(k, "->", v[3])
        return 0
    name = sys.argv[1]
    f, old, new, props = MUTANTS[name]
    props = [p.upper() for p in sys.argv[2:]] or props
    tmp = tempfile.mkdtemp(prefix="twzmut_")
    try:
        shutil.copytree("/repo/tawazi", os.path.join(tmp, "tawazi"))
        p = os.path.join(tmp, f)
        s = open(p).read()
        assert s.count(old) >= 1, "pattern not found for %s" % name
        open(p, "w").write(s.replace(old, new, 1))
        env = dict(os.environ, TWZ_REPO=tmp, TWZ_EVIDENCE_DIR=os.path.join(tmp, "evidence"), TWZ_REPLAY_DIR=os.path.join(tmp, "replays"))
        rc_all = {}
        for pid in props:
            r = subprocess.run(["/venv/bin/python", os.path.join(ROOT, "check.py"), pid, "--tier", os.environ.get("TIER", "quick")], env=env, capture_output=True, text=True)
            tail = [l for l in r.stdout.splitlines() if l.startswith(("VIOLATION", "  mechanism", "INCONCLUSIVE", pid))]
            print("== %s on mutant %s: rc=%d" % (pid, name, r.returncode))
            for l in tail[:4] + tail[-1:]:
                print("   ", l[:400])
            rc_all[pid] = r.returncode
        return 0
    finally:
        shutil.rmtree(tmp, ignore_errors=True)


if __name__ == "__main__":
    sys.exit(main())
