#!/venv/bin/python
"""CLI of the runtime-monitoring checks.

  check.py <PROPERTY> [--tier quick|thorough] [--seed N] [--replay PATH]

exit 0: the property held on everything explored (KNOWN-FINDING lines possible)
exit 1: `VIOLATION property=<id> replay=<path>` printed
exit 3: inconclusive (`INCONCLUSIVE property=<id> reason=...`), never a VIOLATION line
"""
from __future__ import annotations

import argparse
import json
import os
import sys
import time

ROOT = os.path.dirname(os.path.abspath(__file__))
sys.path.insert(0, ROOT)

from twzmon import plans, runner  # noqa: E402


def main():
    ap = argparse.ArgumentParser()
    ap.add_argument("prop")
    ap.add_argument("--tier", default=os.environ.get("VERIF_TIER", "quick"), choices=["quick", "thorough"])
    ap.add_argument("--seed", type=int, default=int(os.environ.get("VERIF_SEED", "0") or 0))
    ap.add_argument("--replay", default=None)
    ap.add_argument("--parallel", type=int, default=None)
    a = ap.parse_args()
    pid = a.prop.upper()
    if pid not in plans.PLANS:
        print("unknown property %s (known: %s)" % (pid, ", ".join(sorted(plans.PLANS))))
        return 2
    t0 = time.time()
    if a.replay:
        with open(a.replay) as f:
            v = json.load(f)
        case = v.get("replay", v)
        hs = case.get("job", {}).get("hashseed", v.get("hashseed", 0)) if isinstance(case, dict) else 0
        job = {"kind": "replay", "case": case, "seed": case.get("job", {}).get("seed", a.seed), "hashseed": hs}
        res = runner.run_jobs([job], parallel=1, timeout=600)
        mine = [x for r in res for x in r.get("violations", []) if x["prop"] == pid]
        known = runner.load_known()
        unknown = [x for x in mine if runner.is_known(x, known) is None]
        for x in mine:
            print("replayed: property=%s mechanism=%s witness=%s" % (x["prop"], x["mech"], json.dumps(x["witness"], default=repr)[:500]))
        inc = [i for r in res for i in r.get("inconclusive", [])]
        if unknown:
            print("VIOLATION property=%s replay=%s" % (pid, a.replay))
            return 1
        if inc:
            print("INCONCLUSIVE property=%s reason=%s" % (pid, str(inc[0])[:400]))
            return 3
        print("replay of %s: no violation of %s reproduced" % (a.replay, pid))
        return 0
    plan = plans.PLANS[pid](a.tier, a.seed)
    par = a.parallel or plan.get("parallel", 8)
    results = runner.run_jobs(plan["jobs"], parallel=par, timeout=plan.get("timeout", 900))
    return runner.finish(
        pid, a.tier, a.seed, plan["level"], plan["rule"], plan["assumptions"], results, t0,
        required_reach=plan.get("required_reach", ()), extra=plan.get("extra"), min_eval=plan.get("min_eval", 1),
        exhaustive=plan.get("exhaustive"),
    )


if __name__ == "__main__":
    sys.exit(main())
