"""twzmon - runtime monitoring of mindee/tawazi (see /verif/DESIGN.md).

Import order matters: `twzmon.bootstrap.install()` must run before `import tawazi`.
"""
