"""Differential jobs: same generated SOURCE TEXT under tawazi and under plain callables (C01, C10, C17, C20)."""
from __future__ import annotations

import asyncio
import json
import os
import random
import tempfile
import zlib
from collections import Counter

from . import bootstrap as B
from . import diffgen as G
from . import probes
from .jobs import REGISTRY, Collector, job
from . import spec as S
from .spec import jsonable
from .sym import TOUCHED, Opaque, Sym, Touchy, same, short


class Built:
    pass


def build_ref(prog, plain, strip_flags=False, sites=None, prefix=""):
    """Plain-Python environment. `sites` collects per-call-site activity: full node id -> dict."""
    env = {"and_": lambda a, b: a and b, "or_": lambda a, b: a or b, "not_": lambda a: not a}
    env.update(G.NAMED_CONSTS)
    lids = G.local_ids(prog)
    for st in prog["stmts"]:
        if st["op"] == "call":
            fs = prog["fns"][st["fn"]]
            fn = plain[st["fn"]]
            nid = prefix + lids[st["site"]]

            def mk(fn=fn, nid=nid, unp=fs["unpack_to"], flagged=st["active"] is not None):
                def site(*a, twz_active=True, twz_tag=None, twz_unpack_to=None, **k):
                    if sites is not None:
                        sites.setdefault(nid, dict(flagged=flagged, calls=0, active=0, flag_values=[]))
                        sites[nid]["calls"] += 1
                        if flagged:
                            sites[nid]["flag_values"].append(short(twz_active, 80))
                    if not twz_active:
                        n = twz_unpack_to or unp
                        return None if not n else tuple(None for _ in range(n))
                    if sites is not None:
                        sites[nid]["active"] += 1
                        sites[nid]["args"] = (a, dict(k))
                    return fn(*a, **k)

                return site

            env["%s_s%d" % (prog["name"], st["site"])] = mk()
    for iname, ip in prog["inner"].items():
        ienv = build_ref(ip, plain, strip_flags, sites, prefix + (ip.get("qualname") or iname) + ".")
        inner_fn = ienv[iname]
        dead = G.dead_value(ip)

        def mkd(inner_fn=inner_fn, dead=dead, ip=ip, prefix2=prefix + (ip.get("qualname") or iname) + "."):
            def call(*a, twz_active=True):
                if not twz_active:
                    if sites is not None:
                        sites.setdefault("dag:" + prefix2, dict(flagged=True, calls=0, active=0, dead=True, keyed=keyed_outputs(ip), flag_values=[]))
                    return dead
                return inner_fn(*a)

            return call

        env[iname] = mkd()
    exec(compile(G.render(prog, strip_flags), "<%s>" % prog["name"], "exec"), env)  # noqa: S102
    return env


def keyed_outputs(prog):
    """Does a (transitively) returned value of this DAG reach into a node result through a key path (index / unpacked
    element)? Used only to classify the known finding 'deactivated nested DAG output indexes into None'."""
    unpacked = set()
    dagvars = {}
    for st in prog["stmts"]:
        if st["op"] == "call" and (prog["fns"][st["fn"]]["unpack_to"] or st.get("call_unpack")):
            unpacked.update(st["t"])
        if st["op"] == "dag":
            for t in st["t"]:
                dagvars[t] = st["name"]
    kind, items = prog["ret"]
    exprs = list(items.values()) if isinstance(items, dict) else list(items)
    for e in exprs:
        base = e.split("[")[0]
        if base in unpacked:
            return True
        if base in dagvars:
            if keyed_outputs(prog["inner"][dagvars[base]]):
                return True
            continue
        if "[" in e:
            return True
    return False


def all_fns(prog, acc=None):
    acc = {} if acc is None else acc
    acc.update(prog["fns"])
    for ip in prog["inner"].values():
        all_fns(ip, acc)
    return acc


COMPOSED_INNER = [0]


def composable_outputs(prog):
    """Call sites whose plain results are exactly what the program returns (single value or tuple), else None."""
    kind, items = prog["ret"]
    if kind not in ("single", "tuple") or not items:
        return None
    # (what compose does with defaulted parameters, flags and nested DAGs is C19's business: plain bodies only)
    if prog["defaults"] or not prog.get("flagfree", True) or any(st["op"] == "dag" for st in prog["stmts"]):
        return None
    by_var = {}
    for st in prog["stmts"]:
        if st["op"] == "call" and len(st["t"]) == 1 and not prog["fns"][st["fn"]]["unpack_to"] and not st.get("call_unpack"):
            by_var[st["t"][0]] = st["site"]
    sites = []
    for it in items:
        if it not in by_var:
            return None
        sites.append(by_var[it])
    if len(set(sites)) != len(sites):
        return None
    # compose() keeps only what the outputs need: the composed DAG equals the body only if EVERY statement feeds the outputs
    import re

    var_re = re.compile(r"\b%s_v\d+\b" % re.escape(prog["name"]))

    def uses(st):
        texts = []
        for k in ("args",):
            texts.extend(st.get(k) or [])
        texts.extend((st.get("kwargs") or {}).values())
        for k in ("active", "a", "b"):
            if st.get(k) is not None:
                texts.append(st[k])
        out = set()
        for t in texts:
            out.update(var_re.findall(str(t)))
        return out

    needed = set(items)
    used_params = set()
    for st in reversed(prog["stmts"]):
        if any(t in needed for t in st["t"]):
            needed |= uses(st)
            for tx in list(st.get("args") or []) + list((st.get("kwargs") or {}).values()) + [st.get("a"), st.get("b")]:
                used_params.update(p for p in prog["params"] if tx is not None and re.search(r"\b%s\b" % re.escape(p), str(tx)))
        else:
            return None
    if used_params != set(prog["params"]):
        return None
    return sites


INNER_DAGS: dict = {}  # inner DAG objects of the program built last (name -> DAG): they are also called directly afterwards


def build_twz(prog, plain, cfg, strip_flags=False, top=True):
    """tawazi environment: xn(...) per function, dag(...) per (inner) program."""
    from tawazi import Resource, and_, dag, not_, or_, xn

    env = {"and_": and_, "or_": or_, "not_": not_}
    env.update(G.NAMED_CONSTS)
    via_config = cfg.get("attrs_via") != "decorator"
    xns = {}
    for name, fs in prog["fns"].items():
        kw = dict(resource=Resource(fs["resource"]))
        if fs["unpack_to"]:
            kw["unpack_to"] = fs["unpack_to"]
        if not via_config or not top:
            kw.update(priority=fs["priority"], is_sequential=fs["is_sequential"])
        xns[name] = S.declare_xn(plain[name], kw, name, salt=str(cfg.get("mc")) + str(len(prog["stmts"])))
    for st in prog["stmts"]:
        if st["op"] == "call":
            env["%s_s%d" % (prog["name"], st["site"])] = xns[st["fn"]]
    for iname, ip in prog["inner"].items():
        env[iname] = build_twz(ip, plain, cfg, strip_flags, top=False)
        INNER_DAGS[iname] = env[iname]
    exec(compile(G.render(prog, strip_flags), "<%s>" % prog["name"], "exec"), env)  # noqa: S102
    if prog.get("qualname"):
        env[prog["name"]].__name__ = prog["pyname"]
        env[prog["name"]].__qualname__ = prog["qualname"]
    if not top:
        d_in = S.declare_dag(env[prog["name"]], dict(max_concurrency=cfg.get("inner_mc", 1)), prog["name"], salt=str(len(prog["stmts"])))
        sites = composable_outputs(prog)
        if sites is not None and zlib.crc32(prog["name"].encode()) % 3 == 0:
            # the inner DAG is not the described object itself but one obtained from it through compose() (all arguments as inputs,
            # the returned nodes as outputs): nesting it must still be the same as inlining the body
            import warnings

            lid = G.local_ids(prog)
            outs = [d_in.get_node_by_id(lid[q]) for q in sites]
            with warnings.catch_warnings():
                warnings.simplefilter("ignore")
                d_in = d_in.compose(prog.get("qualname") or prog["name"], ..., outs[0] if prog["ret"][0] == "single" else outs)
            COMPOSED_INNER[0] += 1
        return d_in
    d = S.declare_dag(env[prog["name"]], dict(max_concurrency=cfg["mc"] if cfg.get("mc_via") == "decorator" else 1, is_async=cfg["is_async"]),
                      prog["name"], salt=str(len(prog["stmts"])))
    conf = {}
    if cfg.get("mc_via") != "decorator":
        conf["max_concurrency"] = cfg["mc"]
    if via_config:
        lids = G.local_ids(prog)
        nodes = {}
        for st in prog["stmts"]:
            if st["op"] == "call":
                fs = prog["fns"][st["fn"]]
                nodes[lids[st["site"]]] = {"priority": fs["priority"], "is_sequential": fs["is_sequential"]}
        if nodes:
            conf["nodes"] = nodes
    if conf:
        how = cfg.get("attrs_via", "dict")
        if how == "yaml":
            import yaml

            fd, p = tempfile.mkstemp(suffix=".yaml")
            with os.fdopen(fd, "w") as f:
                yaml.safe_dump(conf, f)
            try:
                d.config_from_yaml(p)
            finally:
                os.unlink(p)
        elif how == "json":
            fd, p = tempfile.mkstemp(suffix=".json")
            with os.fdopen(fd, "w") as f:
                json.dump(conf, f)
            try:
                d.config_from_json(p)
            finally:
                os.unlink(p)
        else:
            d.config_from_dict(conf)
    return d


def mkplain(prog):
    return {n: probes.mkprobe(n, shape=tuple(fs["shape"]) if fs["shape"] else None) for n, fs in all_fns(prog).items()}


def gen_cfg(rng, feats=None):
    return dict(
        mc=rng.randint(1, (feats or {}).get("mc_max", 4)), is_async=rng.random() < 0.35, attrs_via=rng.choice(["decorator", "decorator", "dict", "yaml", "json"]),
        mc_via=rng.choice(["decorator", "config"]), controlled=rng.random() < 0.6, profile=rng.random() < 0.2,
        via_executor=rng.random() < 0.2,
    )


def gen_args(rng, prog, nonce):
    nreq = len(prog["params"]) - len(prog["defaults"])
    na = rng.randint(nreq, len(prog["params"]))
    out = []
    for i in range(na):
        r = rng.random()
        if prog.get("touchy") and r < 0.3:
            out.append(Touchy(Sym("arg", nonce, i)))  # an argument that may only be passed on
        elif r < 0.6:
            out.append(Sym("arg", nonce, i))
        elif r < 0.75:
            out.append(Opaque(nonce, i))  # identity-sensitive, uncopyable argument
        else:
            out.append(rng.choice(G.CONSTS + G.FALSY_TRUTHY))
    return out


def run_twz(d, args, cfg):
    from tawazi import AsyncDAG

    from tawazi.config import cfg as tcfg

    B.reset_log()
    probes.reset_counts()
    B.Settings.controlled = bool(cfg.get("controlled"))
    B.Settings.step_limit = 10 * len(d.exec_nodes) + 20
    old_prof = tcfg.TAWAZI_PROFILE_ALL_NODES
    tcfg.TAWAZI_PROFILE_ALL_NODES = bool(cfg.get("profile"))
    try:
        # a whole-DAG executor (dag.executor() / DAGExecution(dag)) must behave like the plain call
        f = d.executor() if cfg.get("via_executor") else d
        if isinstance(d, AsyncDAG):
            async def main():
                return await f(*args)

            res = probes.run_op("await", lambda: asyncio.run(main()))
        else:
            res = probes.run_op("call", lambda: f(*args))
    finally:
        B.Settings.controlled = False
        B.Settings.step_limit = 0
        tcfg.TAWAZI_PROFILE_ALL_NODES = old_prof
    return res, B.snapshot()


def compare(col, pid, prog, cfg, args, sites, ref, res, log, rp, clauses, only=None):
    """Differential oracle. Returns True when a disagreement was found.
    only: restrict the reported mechanisms (a check for another property re-uses this workload for its own clause)."""
    bad = False
    real = col

    class _Col:
        def __getattr__(self, k):
            return getattr(real, k)

        def violation(self, p, mech, w, r):
            if only is None or mech in only:
                real.violation(p, mech, w, r)
            else:
                real.counters["other_clause:" + mech] += 1

    col = _Col()
    if ref[0] == "exc":
        col.counters["ref_raised_skipped"] += 1
        return False
    if res[0] == "exc":
        e = res[1]
        mech = "tawazi_raised_but_plain_python_returns"
        if (type(e).__name__ in ("AttributeError", "TypeError") and "NoneType" in str(e) and ("__getitem__" in str(e) or "subscriptable" in str(e))
                and any(k.startswith("dag:") and s_.get("keyed") for k, s_ in sites.items())):
            mech = "deactivated_nested_dag_output_with_key_path_raises"
        col.violation(pid, mech, dict(
            exc=type(e).__name__, msg=str(e)[:300], cause=repr(e.__cause__)[:200], args=short(args), source="\n".join(G.all_sources(prog))), rp)
        return True
    col.counters["value_comparisons"] += 1
    if not same(ref[1], res[1]):
        col.violation(pid, "returned_value_differs_from_plain_python", dict(
            expected=short(ref[1], 400), got=short(res[1], 400), args=short(args), source="\n".join(G.all_sources(prog))), rp)
        bad = True
    # tawazi-side counts come from the epoch-filtered event log (nodes of an earlier failed run may still be finishing
    # in the background and must not be counted here)
    rc, tc = dict(probes.State.ref_counts), dict(Counter(e["fn"] for e in log if e["kind"] == "FENTER"))
    if rc != tc:
        col.violation(pid, "executed_functions_differ_from_plain_python", dict(
            expected_calls=rc, tawazi_calls=tc, args=short(args), source="\n".join(G.all_sources(prog))), rp)
        bad = True
    if clauses:
        entered = Counter(e["node"] for e in log if e["kind"] == "FENTER")
        fargs = {e["node"]: (e["args"], e["kwargs"]) for e in log if e["kind"] == "FENTER"}
        for nid, s in sites.items():
            if s["calls"] != 1:
                continue
            if s["flagged"]:
                col.counters["c10_flagged_sites"] += 1
                col.counters["c10_flag_truthy" if s["active"] else "c10_flag_falsy"] += 1
            exp = s["active"]
            got = entered.get(nid, 0)
            if got != exp and s["flagged"]:
                mech = "flagged_call_ran_although_flag_falsy" if got > exp else "flagged_call_skipped_although_flag_truthy"
                col.violation(pid, mech, dict(node=nid, flag_value=s["flag_values"], entered=got, args=short(args),
                                              source="\n".join(G.all_sources(prog))), rp)
                bad = True
            elif got != exp:
                col.violation(pid, "call_site_entered_%d_times_expected_%d" % (got, exp), dict(node=nid, args=short(args),
                                                                                            source="\n".join(G.all_sources(prog))), rp)
                bad = True
            elif got == 1 and exp == 1 and "args" in s:
                col.counters["c10_dependent_arg_checks"] += 1
                ea, ek = s["args"]
                ga, gk = fargs[nid]
                if not (same(tuple(ea), tuple(ga)) and same(dict(ek), dict(gk))):
                    col.violation(pid, "call_site_received_wrong_values", dict(node=nid, expected=short((ea, ek)), got=short((ga, gk)),
                                                                               source="\n".join(G.all_sources(prog))), rp)
                    bad = True
    return bad


def seq_overlap(col, prog, log, rp, pid=None):
    """C05 on generated programs, judged by the GENERATOR's knowledge of which decorated functions are is_sequential
    (the node objects tawazi rebuilt, e.g. when a DAG is expanded inside another one, are not trusted)."""
    fns = all_fns(prog)
    ivs = []
    open_ = {}
    for e in log:
        if e["kind"] == "FENTER":
            open_[(e["token"], e["node"])] = e
        elif e["kind"] == "FEXIT":
            b = open_.pop((e["token"], e["node"]), None)
            if b is not None:
                ivs.append((b["token"], b["node"], b["fn"], b["seq"], e["seq"]))
    for (_t, _n), b in open_.items():
        ivs.append((b["token"], b["node"], b["fn"], b["seq"], 1 << 60))
    for (t, n, fn, a0, a1) in ivs:
        if not fns.get(fn, {}).get("is_sequential"):
            continue
        col.counters["c05_sequential_probe_intervals"] += 1
        for (t2, n2, fn2, b0, b1) in ivs:
            if t2 == t and n2 != n and not (a1 < b0 or b1 < a0):
                w = dict(sequential=n, other=n2, seq_interval=(a0, a1), other_interval=(b0, b1), source="\n".join(G.all_sources(prog)))
                col.violation("C05", "sequential_function_overlapped_in_generated_program", w, rp)
                if pid in ("C20", "C01") and "." in str(n):
                    # inlining equivalence: a node of a nested DAG must keep the is_sequential behaviour it has in its own DAG
                    col.violation(pid, "nested_dag_node_lost_its_is_sequential_behaviour", w, rp)
                return


def one_program(col, pid, rng, feats, depth, pidx, reps=3, clauses=True, flavours=None, only=None):
    g = G.Gen(rng, feats)
    prog = g.program(depth, "p%d" % pidx)
    plain = mkplain(prog)
    cfg = gen_cfg(rng, feats)
    if flavours == "sync":
        cfg["is_async"] = False
    rp = {"kind": "diff_case", "prog": prog, "cfg": cfg, "feats": feats, "sources": G.all_sources(prog)}
    for t in G.TOGGLES:
        t.on = rng.random() < 0.5  # truthiness while the DAG is described; re-drawn before every call
    try:
        d = build_twz(prog, plain, cfg)
    except BaseException as e:  # noqa: BLE001
        col.counters["build_error:%s" % type(e).__name__] += 1
        if only is None:
            col.violation(pid, "build_of_in_fragment_program_failed", dict(exc=repr(e)[:300], source="\n".join(G.all_sources(prog))), rp)
        return
    inner_dags = {k: INNER_DAGS[k] for k in prog["inner"] if k in INNER_DAGS}
    INNER_DAGS.clear()
    col.counters["programs"] += 1
    col.counters["inner_dags_obtained_through_compose"] += COMPOSED_INNER[0]
    COMPOSED_INNER[0] = 0
    nsites = sum(1 for st in prog["stmts"] if st["op"] in ("call", "dag"))
    for rep in range(reps):
        args = gen_args(rng, prog, (pidx << 8) | rep)
        for t in G.TOGGLES:
            t.on = rng.random() < 0.5
        sites = {}
        renv = build_ref(prog, plain, sites=sites)
        probes.reset_counts()
        failing = None
        if rep == reps - 1 and rng.random() < feats.get("fail_fn", 0.3):
            failing = rng.choice(sorted(all_fns(prog)))  # this decorated function raises whenever it is called, on both sides
            probes.State.fail_fns = {failing}
        del TOUCHED[:]
        try:
            ref = probes.run_ref(lambda: renv[prog["name"]](*args))
            rcounts = Counter(probes.State.ref_counts)
            ref_touched = list(TOUCHED)
            del TOUCHED[:]
            res, log = run_twz(d, args, cfg)
        finally:
            probes.State.fail_fns = set()
        touched = list(TOUCHED)
        del TOUCHED[:]
        if prog.get("touchy"):
            col.counters["cases_with_values_that_may_only_be_passed_on"] += 1
        if ref_touched:
            col.counters["harness:plain_python_inspected_a_touchy_value"] += 1  # generator slip: not a verdict on tawazi
            continue
        if touched and (only is None or "value_only_to_be_passed_on_was_inspected" in only):
            col.violation(pid, "value_only_to_be_passed_on_was_inspected", dict(
                where=touched[:3], outcome=short(res[1], 200), args=short(args), source="\n".join(G.all_sources(prog))),
                dict(rp, args=short(args), rep=rep, failing_function=failing))
            continue
        probes.State.ref_counts = rcounts
        col.evaluations += 1
        rp2 = dict(rp, args=jsonable(args), rep=rep, failing_function=failing)
        byp = [e for e in log if e["kind"] == "BYPASS"]
        if byp:
            # the controller's wall-clock safety valve fired (loaded machine): the case is excluded and counted; the runner
            # turns the check inconclusive only if such cases are more than a negligible fraction
            col.counters["cases_skipped_controller_bypassed"] += 1
            col.soft_inconclusive.append("controller bypassed: %s" % byp[0].get("why"))
            continue
        col.generic(log, rp2)
        seq_overlap(col, prog, log, rp2, pid=pid)
        if ref[0] == "exc" and isinstance(ref[1], LookupError) and not isinstance(ref[1], probes.Injected):
            # the body indexes a result with a key / position that does not exist: plain Python raises, so must the DAG call
            col.counters["plain_python_raises_lookup_error_cases"] += 1
            if res[0] == "ok" and (only is None or "tawazi_returned_but_plain_python_raises" in only):
                col.violation(pid, "tawazi_returned_but_plain_python_raises", dict(
                    plain_python=repr(ref[1])[:120], value=short(res[1], 300), args=short(args), source="\n".join(G.all_sources(prog))), rp2)
            continue
        if failing is not None and ref[0] == "exc" and isinstance(ref[1], probes.Injected):
            # the plain function raises because a decorated function raised: so must the DAG call, whatever the resource
            col.counters["plain_python_raises_cases"] += 1
            if res[0] == "ok" and (only is None or "tawazi_returned_but_plain_python_raises" in only):
                col.violation(pid, "tawazi_returned_but_plain_python_raises", dict(
                    failing_function=failing, value=short(res[1], 300), args=short(args), source="\n".join(G.all_sources(prog))), rp2)
            continue
        bad = compare(col, pid, prog, cfg, args, sites, ref, res, log, rp2, clauses, only=only)
        if ref[0] == "ok" and nsites >= 2:
            order = tuple((e["kind"][1], e["node"]) for e in log if e["kind"] in ("FENTER", "FEXIT"))
            col.hashes.add("%08x%08x" % (zlib.crc32("\n".join(G.all_sources(prog)).encode()), zlib.crc32(repr((order, short(args), cfg["mc"], cfg["is_async"])).encode())))
        if not bad and col.evaluations % 40 == 1:
            col.sample(dict(source="\n".join(G.all_sources(prog)), args=short(args), cfg=cfg, value=short(res[1] if res[0] == "ok" else res, 300),
                            executed=dict(Counter(e["fn"] for e in log if e["kind"] == "FENTER"))))
        for e in log:
            if e["kind"] in ("SPIN", "DEADLOCK"):
                col.counters["event_" + e["kind"]] += 1
        if rep == reps - 1 and failing is None and (only is None or "nested_dag_object_behaves_differently_after_it_was_nested" in only):
            # the inner DAG objects are DAGs of their own: being nested in (and indexed by) an outer DAG has not changed them
            for iname, d_in in inner_dags.items():
                ip = prog["inner"][iname]
                if not ip.get("flagfree", True):
                    continue  # (activation flags inside: the full oracle of the outer comparison is needed to classify what is seen)
                iargs = gen_args(rng, ip, (pidx << 8) | 0x80 | rep)
                renv_i = build_ref(ip, plain)
                probes.reset_counts()
                iref = probes.run_ref(lambda: renv_i[iname](*iargs))
                if iref[0] != "ok":
                    continue
                B.reset_log()
                ires = probes.run_op("direct_call_of_a_dag_that_was_nested", lambda: d_in(*iargs))
                col.counters["inner_dags_called_directly_after_they_were_nested"] += 1
                if ires[0] != "ok" or not same(iref[1], ires[1]):
                    col.violation(pid, "nested_dag_object_behaves_differently_after_it_was_nested", dict(
                        inner=iname, expected=short(iref[1], 300), got=short(ires[1] if ires[0] == "ok" else ires, 300),
                        source="\n".join(G.all_sources(prog))), rp2)


def rejected_description(k):
    """A description that tawazi rejects loudly (and the user catches): later descriptions must be unaffected."""
    from tawazi import dag, xn

    f = xn(probes.mkprobe("rej_f%d" % k))

    @dag
    def rej_inner(x):
        return f(x, twz_active=x)

    try:
        if k % 2 == 0:
            @dag
            def rej_outer(x):  # an activation flag on a nested DAG whose node already has one -> RuntimeError
                return rej_inner(x, twz_active=x)
        else:
            @dag
            def rej_outer2(x):  # the same DAG object nested twice -> KeyError (ids already occupied)
                return rej_inner(x), rej_inner(x)
    except BaseException as e:  # noqa: BLE001
        if isinstance(e, (KeyboardInterrupt, SystemExit)):
            raise
        return type(e).__name__
    return None


@job("diff")
def job_diff(j):
    rng = random.Random(j["seed"])
    col = Collector()
    for pidx in range(j["n_programs"]):
        if pidx % 7 == 3:
            col.counters["rejected_descriptions_before_next_build:%s" % rejected_description(pidx)] += 1
        one_program(col, j["pid"], rng, j["feats"], j.get("depth", 0), pidx, reps=j.get("reps", 3), clauses=j.get("clauses", True),
                    flavours=j.get("flavours"), only=j.get("only"))
    return col.result()


def _replay_diff(j, rp):
    col = Collector(max_per_mech=20)
    prog, cfg = rp["prog"], rp["cfg"]
    plain = mkplain(prog)
    pid = j.get("pid") or rp.get("pid") or "C01"
    rng = random.Random(1)
    for attempt in range(8):
        for t in G.TOGGLES:
            t.on = bool(attempt & 1)  # truthiness while described ...
        d = build_twz(prog, plain, cfg)
        args = gen_args(rng, prog, attempt)
        for k, t in enumerate(G.TOGGLES):
            t.on = bool((attempt >> (1 + k)) & 1)  # ... and while called
        sites = {}
        renv = build_ref(prog, plain, sites=sites)
        probes.reset_counts()
        ref = probes.run_ref(lambda: renv[prog["name"]](*args))
        rcounts = Counter(probes.State.ref_counts)
        res, log = run_twz(d, args, cfg)
        probes.State.ref_counts = rcounts
        col.evaluations += 1
        for p in ("C01", "C10", "C17", "C20"):
            compare(col, p, prog, cfg, args, sites, ref, res, log, rp, True)
    return col.result()


REGISTRY["replay:diff_case"] = _replay_diff
