"""Re-entrancy, environment and lifecycle workloads (round 9): DAGs called from node bodies, from worker threads, in several event
loops, after a cancelled await, and copies of DAG objects (deepcopy / dill) made before and after calls.

Every scenario uses generated programs (sched.gen_shape), the reference evaluation of the same source with plain callables and
the boundary event log: values are compared with the reference, every execution token is run through the spec-free monitors, and
the executions whose program is known also through the spec-based ones (concjobs.per_token_cases)."""
from __future__ import annotations

import asyncio
import copy
import itertools
import random
import threading

from . import bootstrap as B
from . import probes, sched, spec as S
from .concjobs import per_token_cases, run_op_id
from .jobs import Collector, Filtered, job
from .sym import Sym, same, short


async def _await(f, args):
    return await f(*args)


class AppPool(B.Pool):
    """The APPLICATION's executor: a ThreadPoolExecutor for asyncio's type check, but not instrumented (the real constructor and
    the real submit are used); it counts what is handed to it."""

    def __init__(self, n):
        B._RealPool.__init__(self, n, thread_name_prefix="app-pool")
        self.items = 0

    def submit(self, fn, /, *a, **k):
        self.items += 1
        return B._RealPool.submit(self, fn, *a, **k)

    def shutdown(self, wait=True, *, cancel_futures=False):
        return B._RealPool.shutdown(self, wait=wait, cancel_futures=cancel_futures)


def _invoke(d, sp, a):
    if sp["is_async"]:
        return asyncio.run(_await(d, a))
    return d(*a)


def _judge_tokens(col, pid, log, sp, d, plain, calls, rp, what):
    col.generic(log, rp)
    for case in per_token_cases(log, sp, d, plain, calls):
        viol, _st, _v = sched.check_all(case)
        col.counters["env_per_execution_monitor_runs"] += 1
        for x in viol:
            if x["prop"] in ("C02", "C03", "C04", "C05", "C09"):
                col.violation(pid, "per_execution_monitor_failed(%s)(%s:%s)" % (what, x["prop"], x["mech"]), x["witness"], rp)


def reentrant_case(col, pid, rng, cidx, jobref):
    """An outer DAG whose node functions call ANOTHER DAG while they run (two call sites, possibly at the same time, from worker
    threads of the outer execution): by a plain call inside the function, through `xn(inner_dag)`, or after building the inner
    DAG inside the function."""
    from tawazi import Resource, dag, xn

    how = jobref.get("how") or rng.choice(["call_in_body", "call_in_body", "dag_object_as_node_function", "built_in_body"])
    # (DAG objects used as node functions may have setup nodes: the node owns a private copy of the DAG, the user's object stays as built)
    sp = sched.gen_shape(rng, nmin=2, nmax=6, mc_max=3, const_objects=0.0, setup_rate=0.35 if how == "dag_object_as_node_function" else 0.0)
    sp["is_async"] = rng.random() < 0.3 and how != "dag_object_as_node_function"
    # (plain probes also for setup functions: their values are the reference's terms, without invocation numbers)
    plain = {name: probes.mkprobe(name, shape=tuple(fs["shape"]) if fs.get("shape") else None) for name, fs in sp["fns"].items()}
    d, _e, plain = S.build_tawazi(sp, plain=plain)
    setup_ids = [i for i, nd in zip(S.node_ids(sp), sp["nodes"]) if sp["fns"][nd["fn"]].get("setup")]
    lock = threading.Lock()
    calls = {}
    cnt = itertools.count()
    built = []

    def mk_body(tag):
        def body(x):
            me = threading.get_ident()
            opid = "%d.%s.%d" % (cidx, tag, next(cnt))
            a = [x]
            ref = S.run_reference(sp, a, plain)
            dd = d
            if how == "built_in_body":
                dd = S.build_tawazi(sp, plain=plain)[0]  # a DAG described inside a running node function (another thread's DAG runs)
                with lock:
                    built.append(dd)
            r = run_op_id("inner_call_from_node_body", lambda: _invoke(dd, sp, a), opid)
            with lock:
                calls.setdefault(me, []).append((opid, a, ref, r))
            if r[0] == "exc":
                raise r[1]
            return r[1]

        body.__name__ = body.__qualname__ = "via_%s_%d" % (tag, cidx)
        return body

    r1, r2 = rng.choice(["thread", "async-thread"]), rng.choice(["thread", "async-thread"])
    if how == "dag_object_as_node_function":
        c1 = xn(resource=Resource(r1))(d)
        c2 = xn(resource=Resource(r2), is_sequential=rng.random() < 0.3)(d)
    else:
        c1 = xn(resource=Resource(r1))(mk_body("a"))
        c2 = xn(resource=Resource(r2), is_sequential=rng.random() < 0.3)(mk_body("b"))
    postp = probes.mkprobe("post_%d" % cidx)
    post = xn(postp)
    chained = rng.random() < 0.5

    def outer(x):
        a = c1(x)
        b = c2(post(x) if chained else x)
        return a, b

    outer.__name__ = outer.__qualname__ = "outer_%d" % cidx
    omc = rng.randint(1, 3)
    o_async = rng.random() < 0.3
    od = dag(outer, max_concurrency=omc, is_async=o_async)
    x = Sym("arg", "reent", cidx)
    with probes.RefMode():
        px = postp(x) if chained else x
    ref1, ref2 = S.run_reference(sp, [x], plain), S.run_reference(sp, [px], plain)
    rp = {"kind": "rerun_job", "job": dict(jobref, n_cases=cidx + 1), "scenario": "reentrant:" + how, "inner_source": S.render(sp),
          "outer": dict(max_concurrency=omc, is_async=o_async, resources=[r1, r2], chained=chained)}
    B.reset_log()
    probes.reset_counts()
    B.Settings.controlled = False
    B.Settings.stress_sleep = 0.002
    try:
        res = probes.run_op("outer_call", lambda: asyncio.run(_await(od, [x])) if o_async else od(x))
    finally:
        B.Settings.stress_sleep = 0.0
    log = B.snapshot()
    col.evaluations += 1
    col.counters["env_reentrant_cases:" + how] += 1
    if ref1[0] != "ok" or ref2[0] != "ok":
        return
    exp = (ref1[1].result, ref2[1].result)
    if res[0] != "ok":
        col.violation(pid, "dag_called_from_a_node_body_raised", dict(how=how, exc=repr(res[1])[:300], cause=repr(getattr(res[1], "__cause__", None))[:200], **rp["outer"],
                                                                    inner_source=S.render(sp)), rp)
        return
    if not same(exp, res[1]):
        col.violation(pid, "dag_called_from_a_node_body_returned_wrong_value", dict(how=how, expected=short(exp, 300), got=short(res[1], 300), **rp["outer"],
                                                                                  inner_source=S.render(sp)), rp)
    if how == "dag_object_as_node_function":
        col.generic(log, rp)
        # a DAG with such nodes is a DAG like any other: it can be re-configured (naming those nodes) and called inside another DAG
        step = rng.choice(["reconfigured", "nested", "both"])
        if o_async:
            step = "reconfigured"  # (calling a DAG inside a description is the sync flavour's feature)
        tgt = od
        try:
            seq_conf = rng.random() < 0.5
            if step in ("reconfigured", "both"):
                names = [i for i in od.exec_nodes if not (">!>" in i or "<!<" in i) and not i.startswith("post_")]
                # (half of the time the reload also makes the DAG-object nodes sequential: they then never overlap another node)
                od.config_from_dict({"nodes": {i: ({"priority": 2, "is_sequential": True} if seq_conf else {"priority": 2}) for i in names}})
            if step in ("nested", "both"):
                def outer2(x):
                    return od(x)

                outer2.__name__ = outer2.__qualname__ = "outer2_%d" % cidx
                tgt = dag(outer2, max_concurrency=omc, is_async=o_async)
            B.reset_log()
            r2 = probes.run_op("outer_call_" + step, lambda: asyncio.run(_await(tgt, [x])) if o_async else tgt(x))
        except BaseException as e:  # noqa: BLE001
            if isinstance(e, (KeyboardInterrupt, SystemExit)):
                raise
            r2 = ("exc", e)
        col.counters["env_dag_object_nodes:" + step] += 1
        if step == "reconfigured" and seq_conf and r2[0] == "ok":
            lg2 = B.snapshot()
            tok0 = next((e["token"] for e in lg2 if e["kind"] == "POOL_NEW"), None)  # the outer execution's pool is created first
            iv = {}
            for e in lg2:
                if e.get("token") == tok0 and e["kind"] in ("XENTER", "XEXIT") and e.get("node") in names:
                    iv.setdefault(e["node"], {})[e["kind"]] = e["seq"]
            col.counters["env_dag_object_nodes_made_sequential_by_a_reload"] += 1
            done = [(n_, v_["XENTER"], v_.get("XEXIT", 1 << 60)) for n_, v_ in iv.items() if "XENTER" in v_]
            if len(done) == 2 and not (done[0][2] < done[1][1] or done[1][2] < done[0][1]):
                col.violation(pid, "dag_object_node_configured_sequential_overlapped_another_node", dict(intervals=done, **rp["outer"], inner_source=S.render(sp)), rp)
        if r2[0] != "ok" or not same(exp, r2[1]):
            col.violation(pid, "dag_with_a_dag_object_as_node_function_wrong_when_" + step, dict(
                outcome=short(r2, 300), cause=repr(getattr(r2[1], "__cause__", None))[:200] if r2[0] == "exc" else None, expected=short(exp, 300),
                **rp["outer"], inner_source=S.render(sp)), rp)
    else:
        _judge_tokens(col, pid, log, sp, d, plain, calls, rp, "inner execution started from a node body")
    # the inner DAG afterwards: as freshly built
    y = Sym("arg", "reent-after", cidx)
    refy = S.run_reference(sp, [y], plain)
    B.reset_log()
    ry = probes.run_op("inner_call_afterwards", lambda: _invoke(d, sp, [y]))
    if how == "dag_object_as_node_function" and setup_ids and ry[0] == "ok":
        # the user's object was never called before: its first own call runs its setup nodes (nothing leaked in from the copies
        # that the outer DAG's nodes own)
        ent_y = {e["node"] for e in B.snapshot() if e["kind"] == "FENTER"}
        col.counters["env_dag_object_nodes_with_setup_inside"] += 1
        if not set(setup_ids) <= ent_y:
            col.violation(pid, "dag_object_used_as_node_function_got_state_from_the_outer_executions", dict(
                setup_nodes=setup_ids, entered_by_its_first_own_call=sorted(ent_y), inner_source=S.render(sp)), rp)
    if refy[0] == "ok" and (ry[0] != "ok" or not same(refy[1].result, ry[1])):
        col.violation(pid, "dag_state_changed_by_calls_from_node_bodies", dict(how=how, expected=short(refy[1].result, 300), got=short(ry, 300),
                                                                              inner_source=S.render(sp)), rp)
    col.hashes.add(S.spec_hash({"s": S.render(sp), "how": how, "o": rp["outer"]}))


def worker_thread_case(col, pid, rng, cidx, jobref):
    """The call is made by a thread that is not the main thread (a request handler): "main-thread" nodes run on THAT thread, the
    others on pool threads; then the same object is called from the main thread."""
    sp = sched.gen_shape(rng, nmin=2, nmax=7, mc_max=3, mix=rng.choice(["mixed_main", "thread_main", "async_main"]))
    sp["is_async"] = rng.random() < 0.3
    d, _e, plain = S.build_tawazi(sp)
    rp = {"kind": "rerun_job", "job": dict(jobref, n_cases=cidx + 1), "scenario": "call_from_worker_thread", "source": S.render(sp)}
    B.reset_log()
    probes.reset_counts()
    B.Settings.controlled = False
    calls = {}
    out = {}

    def worker():
        me = threading.get_ident()
        for k in range(2):
            a = [Sym("arg", "wt", cidx, k)]
            ref = S.run_reference(sp, a, plain)
            r = run_op_id("call_from_worker_thread", lambda: _invoke(d, sp, a), "%d.wt.%d" % (cidx, k))
            calls.setdefault(me, []).append(("%d.wt.%d" % (cidx, k), a, ref, r))
        out["done"] = True

    th = threading.Thread(target=worker, name="twz-request-handler")
    th.start()
    th.join(120)
    if not out.get("done"):
        col.inconclusive.append("worker-thread call did not finish within 120 s")
        return
    a = [Sym("arg", "wt-main", cidx)]
    ref = S.run_reference(sp, a, plain)
    r = run_op_id("call_from_main_thread_afterwards", lambda: _invoke(d, sp, a), "%d.wt.main" % cidx)
    calls.setdefault(threading.get_ident(), []).append(("%d.wt.main" % cidx, a, ref, r))
    log = B.snapshot()
    col.evaluations += 1
    col.counters["env_worker_thread_cases"] += 1
    for cl in calls.values():
        for _opid, _a, rf, rr in cl:
            if rf[0] != "ok":
                continue
            if rr[0] != "ok":
                col.violation(pid, "call_from_worker_thread_raised", dict(exc=repr(rr[1])[:300], source=S.render(sp)), rp)
            elif not same(rf[1].result, rr[1]):
                col.violation(pid, "call_from_worker_thread_returned_wrong_value", dict(expected=short(rf[1].result, 300), got=short(rr[1], 300), source=S.render(sp)), rp)
    _judge_tokens(col, pid, log, sp, d, plain, calls, rp, "call made by a non-main thread")
    col.hashes.add(S.spec_hash({"s": S.render(sp), "wt": 1}))


def loops_case(col, pid, rng, cidx, jobref):
    """One AsyncDAG awaited in several event loops one after the other (asyncio.run twice), in a loop whose default executor is a
    one-worker pool, and - cancelled in flight - once more in the same loop: every completed await returns the value for its own
    argument and executes each call site once."""
    from concurrent.futures import ThreadPoolExecutor

    sp = sched.gen_shape(rng, nmin=2, nmax=7, mc_max=3, mix=rng.choice(["async", "async_main", "mixed"]))
    sp["is_async"] = True
    # a STRAGGLER: while `hold` is on, the first pooled node function that returns stays in its worker thread until the gate opens
    # (a node that simply takes long) - used for the await that is cancelled in flight
    hold = {"on": False, "in": threading.Event(), "gate": threading.Event(), "taken": False}
    base = {name: probes.mkprobe(name, shape=tuple(fs["shape"]) if fs.get("shape") else None) for name, fs in sp["fns"].items()}

    def straggling(fn, is_async_thread):
        def body(*a, **k):
            r = fn(*a, **k)
            # (only async-thread nodes: the scheduler waits for thread-resource nodes with a blocking call - documented)
            if hold["on"] and is_async_thread and not hold["taken"] and threading.current_thread().name.startswith("twz") and not getattr(B.TLS, "ref", False):
                hold["taken"] = True
                hold["in"].set()
                hold["gate"].wait(40)
            return r

        body.__name__ = body.__qualname__ = fn.__name__
        body.__module__ = fn.__module__
        return body

    d, _e, plain = S.build_tawazi(sp, plain={n_: straggling(f_, sp["fns"][n_].get("resource") == "async-thread") for n_, f_ in base.items()})
    rp = {"kind": "rerun_job", "job": dict(jobref, n_cases=cidx + 1), "scenario": "event_loops", "source": S.render(sp)}
    B.reset_log()
    probes.reset_counts()
    B.Settings.controlled = False
    B.Settings.stress_sleep = 0.003
    calls = {}
    me = threading.get_ident()
    seq = []

    def record(label, a, thunk):
        ref = S.run_reference(sp, a, plain)
        opid = "%d.loop.%d" % (cidx, len(seq))
        r = run_op_id(label, thunk, opid)
        calls.setdefault(me, []).append((opid, a, ref, r))
        seq.append((label, a, ref, r))

    try:
        a1, a2, a3, a4, a5 = ([Sym("arg", "loop", cidx, k)] for k in range(5))
        record("await_in_first_loop", a1, lambda: asyncio.run(_await(d, a1)))
        record("await_in_second_loop", a2, lambda: asyncio.run(_await(d, a2)))

        async def small_pool():
            asyncio.get_running_loop().set_default_executor(AppPool(1))
            return await d(*a3)

        record("await_in_loop_with_one_worker_default_executor", a3, lambda: asyncio.run(small_pool()))
        # the loop's default executor belongs to the application: one worker, and that one is BUSY with a job of the application for
        # as long as the await lasts.  An execution that hands any of its work to that executor waits for the application.
        busy = {}
        a6 = [Sym("arg", "loop", cidx, 6)]

        async def busy_pool():
            loop = asyncio.get_running_loop()
            app = AppPool(1)
            loop.set_default_executor(app)
            gate = threading.Event()
            own = loop.run_in_executor(None, gate.wait, 30)
            try:
                return await asyncio.wait_for(d(*a6), 20)
            finally:
                busy["foreign_items"] = app.items - 1
                gate.set()
                await own

        record("await_in_loop_whose_default_executor_is_busy", a6, lambda: asyncio.run(busy_pool()))
        col.counters["env_awaits_next_to_a_busy_default_executor"] += 1
        if busy.get("foreign_items"):
            seq.pop()  # (judged here, by what was handed over - not by the time-out it leads to)
            col.violation(pid, "execution_handed_work_to_the_event_loops_default_executor", dict(
                items=busy["foreign_items"], note="the application's executor may be small, busy or inline: the scheduler then idles, "
                "starts nodes in the executor's order, or runs them on the loop thread", source=S.render(sp)), rp)
        elif seq[-1][3][0] == "exc" and isinstance(seq[-1][3][1], (asyncio.TimeoutError, TimeoutError)):
            seq.pop()
            col.soft_inconclusive.append("await next to a busy default executor timed out although nothing was handed to that executor")
        cancelled = {}
        delay = rng.choice([0.0, 0.001, 0.004, 0.01])

        with_straggler = rng.random() < 0.5

        async def cancel_then_again():
            hold["on"] = with_straggler
            t = asyncio.ensure_future(d(*a4))
            if with_straggler:
                for _ in range(3000):  # (until a pooled node of that execution is inside its function, at most 3 s)
                    if hold["in"].is_set() or t.done():
                        break
                    await asyncio.sleep(0.001)
            else:
                await asyncio.sleep(delay)
            t.cancel()
            hold["on"] = False
            cancelled["marker"] = B.ev("CANCEL_SENT")
            try:
                await t
                cancelled["finished"] = True
            except asyncio.CancelledError:
                cancelled["cancelled"] = True
            try:
                # the straggler of the cancelled execution is still in its thread: the next await does not depend on it
                return await asyncio.wait_for(d(*a5), 20)
            finally:
                cancelled["straggler_in_flight_during_the_next_await"] = hold["in"].is_set()
                hold["gate"].set()

        # (the cancelled await owns an execution token as well: it is not a recorded call, its successor is)
        B.new_epoch()
        ref5 = S.run_reference(sp, a5, plain)
        r5 = probes.run_op("await_after_a_cancelled_await_in_the_same_loop", lambda: asyncio.run(cancel_then_again()))
        seq.append(("await_after_a_cancelled_await_in_the_same_loop", a5, ref5, r5))
        col.counters["env_cancelled_awaits:%s" % ("cancelled_in_flight" if cancelled.get("cancelled") else "finished_before_the_cancel")] += 1
        if cancelled.get("straggler_in_flight_during_the_next_await"):
            col.counters["env_awaits_made_while_a_node_of_a_cancelled_await_was_still_running"] += 1
    finally:
        B.Settings.stress_sleep = 0.0
    log = B.snapshot()
    col.evaluations += 1
    col.counters["env_event_loop_cases"] += 1
    for label, a, ref, r in seq:
        if ref[0] != "ok":
            continue
        if r[0] != "ok":
            col.violation(pid, "%s_raised" % label, dict(exc=repr(r[1])[:300], source=S.render(sp)), rp)
        elif not same(ref[1].result, r[1]):
            col.violation(pid, "%s_returned_wrong_value" % label, dict(expected=short(ref[1].result, 300), got=short(r[1], 300), source=S.render(sp)), rp)
    col.generic(log, rp)
    mk = cancelled.get("marker")
    if cancelled.get("cancelled") and mk is not None:
        # after the cancellation reached the awaiting task nothing NEW of that execution is dispatched (what is in flight finishes)
        toks = [e["token"] for e in log if e["kind"] == "POOL_NEW"]
        if len(toks) >= 2:
            ctok = toks[-2]  # the cancelled execution's pool; the last one belongs to the await that followed
            # (the hand-over of an async-thread node happens in its task's first step: a SUBMIT made by a task that existed before
            # the cancellation is not a new dispatch)
            late = [e for e in log if e.get("token") == ctok and e["seq"] > mk + 1
                    and (e["kind"] == "TASK_NEW" or (e["kind"] == "SUBMIT" and e.get("task") is None))]
            late_inline = [e for e in log if e.get("token") == ctok and e["kind"] == "XENTER" and e.get("inline") and e["seq"] > mk + 1]
            col.counters["env_cancelled_executions_checked"] += 1
            if late or late_inline:
                col.violation(pid, "cancelled_await_kept_dispatching_nodes", dict(
                    dispatched_after_the_cancel=[(e["kind"], e.get("node")) for e in (late + late_inline)][:6], source=S.render(sp)), rp)


def copies_case(col, pid, rng, cidx, jobref):
    """Copies of a DAG object (copy.deepcopy, dill round trip) made before any call, after calls, after a failed call and after a
    configuration reload: the copy and the original both behave like the freshly built DAG configured the same way."""
    sp = sched.gen_shape(rng, nmin=2, nmax=6, mc_max=3, const_objects=0.0)
    sp["is_async"] = rng.random() < 0.3
    # (node functions importable by name - like functions of a user's module - so that a pickle refers to them instead of containing them)
    import sys
    import types

    reg = sys.modules.setdefault("twzreg", types.ModuleType("twzreg"))
    plain = {name: probes.mkprobe(name, shape=tuple(fs["shape"]) if fs.get("shape") else None) for name, fs in sp["fns"].items()}
    for name, f_ in plain.items():
        f_.__module__ = "twzreg"
        setattr(reg, name, f_)
    d, _e, plain = S.build_tawazi(sp, plain=plain)
    ids = S.node_ids(sp)
    rp = {"kind": "rerun_job", "job": dict(jobref, n_cases=cidx + 1), "scenario": "copies", "source": S.render(sp)}
    hist = []
    objs = [d]

    def idx_of(o):  # (`==` on DAG objects compares their nodes - operators of the library: identity only)
        return next(i for i, q in enumerate(objs) if q is o)

    def call(obj, k, fail=None):
        a = [Sym("arg", "cp", cidx, k)]
        ref = S.run_reference(sp, a, plain)
        B.reset_log()
        probes.State.faults = {fail} if fail else set()
        try:
            r = probes.run_op("call", lambda: _invoke(obj, sp, a))
        finally:
            probes.State.faults = set()
        return a, ref, r, B.snapshot()

    B.Settings.controlled = False
    for step in range(rng.randint(2, 5)):
        o = rng.choice(objs)
        what = rng.choice(["call", "call", "failing_call", "deepcopy", "deepcopy", "dill"])
        if what == "call":
            a, ref, r, log = call(o, len(hist))
            hist.append(("call", idx_of(o), r[0]))
            col.counters["env_copy_history_calls"] += 1
            if ref[0] == "ok" and (r[0] != "ok" or not same(ref[1].result, r[1])):
                col.violation(pid, "call_on_a_copied_or_copied_from_dag_wrong", dict(history=hist, expected=short(ref[1].result, 300), got=short(r, 300), source=S.render(sp)), rp)
                return
            col.generic(log, dict(rp, history=list(hist)))
        elif what == "failing_call":
            a, ref, r, log = call(o, len(hist), fail=rng.choice(ids))
            hist.append(("failing_call", idx_of(o), r[0]))
        else:
            try:
                if what == "deepcopy":
                    c = copy.deepcopy(o)
                else:
                    import dill

                    c = dill.loads(dill.dumps(o, recurse=True))
            except BaseException as e:  # noqa: BLE001
                if isinstance(e, (KeyboardInterrupt, SystemExit)):
                    raise
                col.counters["env_copy_refused:%s:%s" % (what, type(e).__name__)] += 1
                hist.append((what + "_refused", idx_of(o), type(e).__name__))
                if what == "deepcopy":
                    col.violation(pid, "deepcopy_of_a_dag_raised", dict(history=hist, exc=repr(e)[:300], source=S.render(sp)), rp)
                    return
                continue
            objs.append(c)
            hist.append((what, idx_of(o), len(objs) - 1))
            col.counters["env_copies_made:" + what] += 1
    col.evaluations += 1
    # finally every object is called once more
    for o in objs:
        a, ref, r, log = call(o, 100 + idx_of(o))
        col.counters["env_copy_final_calls"] += 1
        if ref[0] == "ok" and (r[0] != "ok" or not same(ref[1].result, r[1])):
            col.violation(pid, "call_on_a_copied_or_copied_from_dag_wrong", dict(history=hist + [("final_call", idx_of(o))], expected=short(ref[1].result, 300),
                                                                                got=short(r, 300), source=S.render(sp)), rp)
            return
        col.generic(log, dict(rp, history=list(hist)))
    col.hashes.add(S.spec_hash({"s": S.render(sp), "h": hist}))


SCENARIOS = {"reentrant": reentrant_case, "worker_thread": worker_thread_case, "loops": loops_case, "copies": copies_case}


@job("env")
def job_env(j):
    rng = random.Random(j["seed"])
    col0 = Collector()
    pid = j.get("pid", "C16")
    col = Filtered(col0, j.get("only"))
    which = j.get("scenarios") or sorted(SCENARIOS)
    for c in range(j["n_cases"]):
        fn = SCENARIOS[which[c % len(which)]]
        try:
            fn(col, pid, rng, c, j)
        except BaseException as e:  # noqa: BLE001
            if isinstance(e, (KeyboardInterrupt, SystemExit)):
                raise
            import traceback

            col0.inconclusive.append("monitor error in env case %d (%s): %r\n%s" % (c, fn.__name__, e, traceback.format_exc()[-1500:]))
    return col0.result()
