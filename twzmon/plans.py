"""Per-property workload plans: which jobs a check runs at each tier, what must have been observed."""
from __future__ import annotations

PLANS = {}

ASSUME_COMMON = [
    "tawazi talks to the concurrency runtime only through ThreadPoolExecutor(+submit), concurrent.futures.wait, "
    "asyncio.wait and asyncio tasks; if an edit bypasses these patch points the reach counters stay 0 and the check "
    "exits 3 (inconclusive), never 0",
    "only executions produced by the generators are decided (DAGs <= ~14 call sites here, max_concurrency <= 8); "
    "OS-level interleavings inside a stdlib primitive are not controlled",
    "completion order is chosen by the controller (probes park until released); thread pre-emption inside tawazi's own "
    "Python code is explored only statistically (stress jobs with a tiny switch interval)",
]


def plan(pid):
    def deco(f):
        PLANS[pid] = f
        return f

    return deco


def _seeds(seed, k):
    return {"seed": seed * 100003 + k * 7919 + 1, "hashseed": (seed * 131 + k * 17) % 4096}


def medium_jobs(pid, tier, seed, faults=False):
    """Shapes of 40..170 call sites (max_concurrency up to 12, levels much wider than that, functions used more than ten times),
    free-running, judged by the same spec-based and spec-free monitors as the small ones."""
    gen = dict(nmin=40, nmax=170, mc_max=12, max_deps=2, tag_rate=0.25, debug_rate=0.1, nest_rate=0.15, twin_rate=0.12)
    return [dict(kind="sched", mode="stress", n_cases=(10 if tier == "quick" else 60), reps=2, gen=gen, selections=True, faults=faults, fault_rate=0.5,
                 flavour="both", **_seeds(seed + 300, k)) for k in range(2 if tier == "quick" else 8)]


def sched_jobs(tier, seed, gen=None, selections=False, faults=False, fault_rate=1.0, stress=True, dfs=True,
               dfs_faults=False, scale=1.0, dfs_gen=None, flavour="both"):
    gen = dict(gen or {})
    gen.setdefault("tag_rate", 0.25)  # decorator-level tags (shared / spelled like another node's id) + configuration by tag
    gen.setdefault("debug_rate", 0.1)  # debug sinks, run with RUN_DEBUG_NODES on (whole-DAG calls)
    gen.setdefault("nest_rate", 0.15)  # a block of call sites written as an inner DAG (prefixed ids), same clauses
    gen.setdefault("twin_rate", 0.12)  # two different decorated functions carrying one qualified name (own options each)
    jobs = []
    if tier == "quick":
        n_ctl, cases, n_dfs, dfs_shapes, dfs_limit, n_stress = 6, int(250 * scale), 4, 10, 200, 2
    else:
        n_ctl, cases, n_dfs, dfs_shapes, dfs_limit, n_stress = 20, int(1500 * scale), 12, 60, 1500, 4
    k = 0
    for _ in range(n_ctl):
        jobs.append(dict(kind="sched", mode="ctl", n_cases=cases, reps=2, gen=gen, selections=selections,
                         faults=faults, fault_rate=fault_rate, flavour=flavour, **_seeds(seed, k)))
        k += 1
    if stress:
        for _ in range(n_stress):
            jobs.append(dict(kind="sched", mode="stress", n_cases=max(20, cases // 4), reps=2, gen=gen, selections=selections,
                             faults=faults, fault_rate=fault_rate, flavour=flavour, **_seeds(seed, k)))
            k += 1
    # process-wide defaults taken from the environment (read by tawazi.config at import): what a declaration leaves unsaid
    # means something else in these worker processes
    envs = [None, {"TAWAZI_DEFAULT_RESOURCE": "async-thread"}, {"TAWAZI_IS_SEQUENTIAL": "true"}, {"TAWAZI_DEFAULT_RESOURCE": "main-thread"}]
    for i, jb in enumerate(jobs):
        if envs[i % len(envs)]:
            jb["env"] = envs[i % len(envs)]
    if dfs:
        g2 = dict(gen)
        g2.update(dfs_gen or {})
        g2["nmax"] = min(g2.get("nmax", 6), 6 if tier == "quick" else 7)
        g2["mc_max"] = min(g2.get("mc_max", 3), 3)
        g2["setup_rate"] = 0.0  # the DFS re-runs ONE DAG object many times: setup state would carry over between schedules
        for _ in range(n_dfs):
            jobs.append(dict(kind="sched_dfs", n_shapes=dfs_shapes if not dfs_faults else max(2, dfs_shapes // 4), limit=dfs_limit, gen=g2,
                             faults=dfs_faults, flavour=flavour, selections=selections, **_seeds(seed, k)))
            k += 1
    return jobs


def w3_jobs(seed):
    """the repository's own 352 tests under the passive spec-free monitors (workload W3)"""
    return [dict(kind="w3", seed=seed, hashseed=seed % 4096)]


RULE_W3 = ("; plus workload W3: the repository's own test-suite (352 tests, ~550 executions) run under the passive spec-free monitors "
           "(dependency order, at-most-once, pool bound, thread identity, sequential exclusivity, no dispatch after an observed failure)")

RULE_SCHED = (
    "generated DAG shapes (2..N call sites, random dependencies through positional/keyword/flag arguments, reused "
    "functions, priorities with ties and negatives, sequential flags, all three resources, max_concurrency 1..M, sync and "
    "async flavour) run under the completion-order controller (seeded random orders; exhaustive DFS of completion orders "
    "on the small shapes) and in stress mode; a case is non-trivial when it has >= 2 call sites and >= 1 checked "
    "decision or wait; distinct = distinct (program hash, observed enter/exit order hash, operation) triples"
)


@plan("C02")
def c02(tier, seed):
    return dict(
        jobs=[dict(kind="scale", pid="C02", n_cases=(5 if tier == "quick" else 12), deep=True, kinds=["fan_in", "fan_in", "grid", "binary", "chain"], nmin=150, nmax=(350 if tier == "quick" else 700), **_seeds(seed + 315, k)) for k in range(1 if tier == "quick" else 4)] + medium_jobs("C02", tier, seed) + w3_jobs(seed) + sched_jobs(tier, seed, gen=dict(nmax=9, mc_max=4), selections=True)
        # a dependency that RAISES has not returned either: failing nodes of every resource, nothing downstream may be entered
        + sched_jobs(tier, seed + 13, gen=dict(nmax=7, mc_max=3), faults=True, fault_rate=0.7, stress=False, dfs=False, scale=0.3)
        # executors that are run again (after a failure / a success), both flavours: no missing or stale values on the second run
        + [dict(kind="hist15", pid="C02", n_histories=(40 if tier == "quick" else 400), only=["executor_rerun_used_partially_consumed_graph"],
                **_seeds(seed + 65, k)) for k in range(2 if tier == "quick" else 8)]
        + diff_jobs("C02", tier, seed, dict(flags=0.2, nest=0.3, nest_flag=0.2, const_flag=0.3, share_fns=0.3), 2, nj_scale=0.5,
                    only=["call_site_received_wrong_values", "tawazi_returned_but_plain_python_raises", "value_only_to_be_passed_on_was_inspected"])
        # the consumers inside a COMPOSED DAG receive the values given for the inputs they depend on (inputs listed in any order)
        + [dict(kind="comp19", pid="C02", n_cases=(600 if tier == "quick" else 2500), only=["composed_value_differs_from_substituted_pipeline"],
                **_seeds(seed + 67, k)) for k in range(2 if tier == "quick" else 6)]
        # ... whoever makes the call: a worker thread, a node function of another DAG (main-thread nodes run on THAT thread and are
        # waited for like everywhere else)
        + [dict(kind="env", pid="C02", scenarios=["worker_thread", "reentrant"], n_cases=(60 if tier == "quick" else 500),
                only=["per_execution_monitor_failed(call made by a non-main thread)(C02:*", "per_execution_monitor_failed(inner execution started from a node body)(C02:*",
                      "call_from_worker_thread_returned_wrong_value", "dag_called_from_a_node_body_returned_wrong_value"],
                **_seeds(seed + 69, k)) for k in range(2 if tier == "quick" else 6)],
        level="exploration", rule=RULE_SCHED + RULE_W3 + "; plus generated programs with nested DAGs (depth 2), operators, indexing and keyword "
        "arguments where every executed call site must receive exactly the reference's argument terms", assumptions=ASSUME_COMMON,
        required_reach=["c02_dep_edges", "c02_value_checks", "c10_dependent_arg_checks", "XENTER", "FENTER", "rewired_twins_built_after_the_first_dag_was_dropped"], parallel=8 if tier == "quick" else 16,
    )


@plan("C03")
def c03(tier, seed):
    return dict(
        jobs=[dict(kind="scale", pid="C03", n_cases=(4 if tier == "quick" else 10), deep=True, nmin=150, nmax=(350 if tier == "quick" else 700), **_seeds(seed + 311, k)) for k in range(1 if tier == "quick" else 4)] + medium_jobs("C03", tier, seed) + w3_jobs(seed) + sched_jobs(tier, seed, gen=dict(nmax=9, mc_max=4), selections=True)
        + diff_jobs("C03", tier, seed, dict(flags=0.3, nest=0.3, nest_flag=0.3, share_fns=0.5), 2, nj_scale=0.5,
                    only=["executed_functions_differ_from_plain_python", "flagged_call_ran_although_flag_falsy",
                          "flagged_call_skipped_although_flag_truthy"] + ["call_site_entered_%d_times_expected_%d" % (a, b) for a in range(6) for b in range(2)])
        + [dict(kind="hist15", pid="C03", n_histories=(40 if tier == "quick" else 400), only=["executor_rerun_used_partially_consumed_graph"],
                **_seeds(seed + 95, k)) for k in range(2 if tier == "quick" else 8)]
        + [dict(kind="hist11", pid="C03", n_histories=(250 if tier == "quick" else 1000),
                only=["executed_set_differs_from_model", "ran_setup_node_the_selection_does_not_need", "setup_node_ran_more_than_once_on_one_instance"],
                **_seeds(seed + 90, k)) for k in range(2 if tier == "quick" else 8)]
        # ... nor a disabled debug node, in any execution mode of either flavour
        + [dict(kind="dbg", pid="C03", random_shapes=(60 if tier == "quick" else 600), nmax=7,
                only=["debug_node_ran_with_flag_off(call)", "debug_node_ran_with_flag_off(executor)", "debug_node_ran_with_flag_off(setup)",
                      "pulled_in_debug_node_misses_an_input"],
                **_seeds(seed + 82, k)) for k in range(1 if tier == "quick" else 4)]
        # ... nor is an already-set-up or already-cached node entered again by an execution restarted from a cache file
        + [dict(kind="cache18", pid="C03", n_cases=(250 if tier == "quick" else 1500), only=["restart_executed_set_wrong", "restart_recomputed_cached_nodes"],
                **_seeds(seed + 80, k)) for k in range(2 if tier == "quick" else 4)]
        # "the function of every other node (unselected ...) is not entered at all", however the selection is spelled: ids of
        # reused functions, tags (shared, substrings of each other, equal to another node's id), references, lists and tuples
        + [dict(kind="sel", pid="C03", exhaustive_n=[], random_shapes=(40 if tier == "quick" else 300), nmin=4, nmax=8, triples_per_shape=30,
                only=["executed_set_differs_from_documented_closure", "nodes_ran_although_selection_invalid",
                      "node_ids_of_reused_functions_not_as_documented"], **_seeds(seed + 85, k)) for k in range(2 if tier == "quick" else 8)]
        # a DAG described while other threads describe / call DAGs holds every call site of ITS describing function and no foreign one;
        # a DAG called meanwhile executes (it is not traced into the other thread's description)
        + [dict(kind="comp19", pid="C03", n_cases=(1500 if tier == "quick" else 4000), only=["composed_dag_ran_more_or_less_than_the_outputs_need"],
                **_seeds(seed + 89, k)) for k in range(2 if tier == "quick" else 6)]
        + [dict(kind="conc16", pid="C03", n_cases=(48 if tier == "quick" else 320), lockset=False,
                only=["dag_built_during_overlap_differs_from_dag_built_alone", "dag_built_concurrently_differs_from_dag_built_alone",
                      "dag_call_during_other_threads_build_returned_wrong_value", "dag_call_during_other_threads_build_raised"],
                **_seeds(seed + 87, k)) for k in range(2 if tier == "quick" else 6)],
        level="exploration", rule=RULE_SCHED + RULE_W3 + "; plus generated programs with nested DAGs (depth 2), shared functions and flags where "
        "every call site (prefixed ids predicted by the monitor) must be entered exactly as often as in the reference run; plus histories of "
        "call / executor(sel) / setup() / setup(sel, incl. the empty list) / deepcopy on one instance where the executed set of every "
        "operation must be the selection minus the already-set-up nodes",
        assumptions=ASSUME_COMMON,
        required_reach=["c03_sites", "c10_flagged_sites", "FENTER"], parallel=8 if tier == "quick" else 16,
    )


@plan("C04")
def c04(tier, seed):
    return dict(
        jobs=[dict(kind="scale", pid="C04", n_cases=(4 if tier == "quick" else 10), kinds=["roots", "fan", "fan_below_sequential", "grid", "fan_in"], nmin=150, nmax=(350 if tier == "quick" else 700), **_seeds(seed + 312, k)) for k in range(1 if tier == "quick" else 4)] + medium_jobs("C04", tier, seed) + w3_jobs(seed) + sched_jobs(tier, seed, gen=dict(nmin=4, nmax=14, mc_max=8, max_deps=1, seq_rate=0.05), dfs_gen=dict(nmin=3))
        # resources decide the thread in EVERY execution mode: executors restricted by target / exclude / root nodes, setup nodes
        # (any resource) run by setup() or by the first call
        + sched_jobs(tier, seed + 21, gen=dict(nmin=3, nmax=9, mc_max=4, max_deps=2, setup_rate=0.3), selections=True, dfs=False, stress=False, scale=0.4)
        + diff_jobs("C04", tier, seed, dict(flags=0.2, nest=0.3, nest_flag=0.2, share_fns=0.3, seq=0.2), 2, nj_scale=0.25, only=[])
        # "main-thread" is the thread that makes the call - also when that is a worker thread, or a node function of another DAG
        + [dict(kind="env", pid="C04", scenarios=["worker_thread", "reentrant"], n_cases=(40 if tier == "quick" else 400),
                only=["per_execution_monitor_failed(call made by a non-main thread)(C04:*", "per_execution_monitor_failed(inner execution started from a node body)(C04:*"],
                **_seeds(seed + 47, k)) for k in range(2 if tier == "quick" else 6)],
        level="exploration", rule=RULE_SCHED + RULE_W3 + "; wide fan-outs (ready >> max_concurrency), max_concurrency 1..8",
        assumptions=ASSUME_COMMON, required_reach=["c04_pooled_decisions", "c04_thread_checks", "SUBMIT"],
        parallel=8 if tier == "quick" else 16,
    )


@plan("C05")
def c05(tier, seed):
    return dict(
        jobs=[dict(kind="scale", pid="C05", n_cases=(6 if tier == "quick" else 12), kinds=["chain_beside_sequential", "chain_beside_sequential", "fan_below_sequential", "fan_below_sequential"], nmin=150, nmax=(350 if tier == "quick" else 700), **_seeds(seed + 313, k)) for k in range(1 if tier == "quick" else 4)] + medium_jobs("C05", tier, seed) + w3_jobs(seed) + sched_jobs(tier, seed, gen=dict(nmax=8, mc_max=4, seq_rate=0.4), selections=True)
        + diff_jobs("C05", tier, seed, dict(flags=0.2, nest=0.3, nest_flag=0.2, share_fns=0.3, seq=0.4), 2, nj_scale=0.25, only=[])
        # nodes whose function is a DAG object, made sequential by a configuration reload: they overlap nothing either
        + [dict(kind="env", pid="C05", scenarios=["reentrant"], how="dag_object_as_node_function", n_cases=(60 if tier == "quick" else 500),
                only=["dag_object_node_configured_sequential_overlapped_another_node"], **_seeds(seed + 49, k)) for k in range(2 if tier == "quick" else 6)],
        level="exploration", rule=RULE_SCHED + RULE_W3 + "; 40% of the functions are is_sequential (every resource)",
        assumptions=ASSUME_COMMON, required_reach=["c05_pairs", "FENTER", "env_dag_object_nodes_made_sequential_by_a_reload", "executors_created_before_a_reload_of_is_sequential"], parallel=8 if tier == "quick" else 16,
    )


@plan("C06")
def c06(tier, seed):
    jobs = sched_jobs(tier, seed, gen=dict(nmax=9, mc_max=4, pri="small"), selections=True)
    jobs += sched_jobs(tier, seed + 7, gen=dict(nmax=8, mc_max=3, pri="pow10"), selections=True, stress=False, dfs=False, scale=0.5)
    # tie-free priorities at max_concurrency=1: the observed start order must be THE order by compound priority - also for
    # executors with debug nodes re-attached (RUN_DEBUG_NODES on), composed DAGs, re-configured DAGs and retried executors
    jobs += [dict(kind="cp", pid="C06", exhaustive_n=[2, 3, 4] if tier == "quick" else [2, 3, 4, 5], part=0, nparts=1,
                  random_cases=(40 if tier == "quick" else 400), seed=seed * 97 + 50 + h, hashseed=h,
                  variants={"target": "one", "root": 1, "exclude": 1, "config": 1, "debug": 1, "compose": 1, "retry": 1}) for h in range(2 if tier == "quick" else 8)]
    return dict(
        jobs=medium_jobs("C06", tier, seed) + jobs, level="exploration", rule=RULE_SCHED + "; whole-DAG calls and executors with target/exclude/root selections",
        assumptions=ASSUME_COMMON + ["ready set = scheduler-knowable: a node whose parent finished but was not yet delivered by a wait is not counted"],
        required_reach=["c06_decisions_with_alternatives", "WAIT_thread"], parallel=8 if tier == "quick" else 16,
    )


@plan("C08")
def c08(tier, seed):
    jobs = sched_jobs(tier, seed, gen=dict(nmin=3, nmax=10, mc_max=4, max_deps=2, mix="thread", setup_rate=0.3), flavour="both", scale=0.5)
    jobs += sched_jobs(tier, seed + 3, gen=dict(nmin=3, nmax=10, mc_max=4, max_deps=2, mix="async"), flavour="both", scale=0.5, dfs=False, stress=False)
    jobs += sched_jobs(tier, seed + 5, gen=dict(nmin=3, nmax=10, mc_max=4, max_deps=2), flavour="both", scale=0.5)
    # executors with target / exclude / root selections followed by whole calls on the SAME object: the parallelism of a later
    # execution must not depend on what ran before
    jobs += sched_jobs(tier, seed + 9, gen=dict(nmin=4, nmax=10, mc_max=4, max_deps=1), flavour="both", scale=0.5, selections=True, dfs=False, stress=False)
    # the slots of an execution are its own: an AsyncDAG awaited in a loop whose (one-worker) default executor is busy with a job of
    # the application hands nothing to that executor - otherwise the scheduler idles for as long as the application likes
    # limits beyond the usual: max_concurrency up to 14 with levels wider than that (the whole limit is usable, not "up to 8")
    jobs += sched_jobs(tier, seed + 21, gen=dict(nmin=12, nmax=28, mc_max=14, max_deps=1, mix="thread", seq_rate=0.05), flavour="both", scale=0.25, dfs=False, stress=False)
    jobs += sched_jobs(tier, seed + 23, gen=dict(nmin=12, nmax=28, mc_max=14, max_deps=1, mix="async", seq_rate=0.05), flavour="both", scale=0.25, dfs=False, stress=False)
    jobs += [dict(kind="env", pid="C08", scenarios=["loops"], n_cases=(30 if tier == "quick" else 300), only=["execution_handed_work_to_the_event_loops_default_executor"],
                  **_seeds(seed + 15, k)) for k in range(2 if tier == "quick" else 6)]
    return dict(
        jobs=jobs, level="exploration", rule=RULE_SCHED + "; thread-only, async-only and mixed DAGs generated separately",
        assumptions=ASSUME_COMMON, required_reach=["c08_blocking_waits", "WAIT_thread", "WAIT_async", "env_awaits_next_to_a_busy_default_executor"],
        parallel=8 if tier == "quick" else 16,
    )


@plan("C09")
def c09(tier, seed):
    jobs = sched_jobs(tier, seed, gen=dict(nmax=9, mc_max=3, seq_rate=0.3), selections=True, faults=True, fault_rate=0.3,
                      dfs_faults=False)
    jobs += sched_jobs(tier, seed + 11, gen=dict(nmax=5, mc_max=2, seq_rate=0.4), stress=False, dfs=True, dfs_faults=True, scale=0.2)
    # every case with failing nodes (all exception classes, with and without known call locations) on async-thread / mixed shapes: a
    # failure that does not reach the scheduler is a call that never ends
    jobs += sched_jobs(tier, seed + 17, gen=dict(nmax=6, mc_max=3, mix="async_main"), faults=True, fault_rate=1.0, dfs=False, stress=False, scale=0.3,
                       flavour="both")
    # executions started from inside node functions (also setup() inside a setup node): must terminate
    jobs += [dict(kind="imbricated", n_cases=(60 if tier == "quick" else 600), op_watchdog_s=20, **_seeds(seed + 80, k)) for k in range(2 if tier == "quick" else 4)]
    # executors built and run with debug nodes switched on (selections that re-attach debug nodes with several parents): building the
    # executor and running it terminate (a hang is judged by the watchdog's stack samples: client thread inside tawazi)
    jobs += [dict(kind="dbg", only=["__termination_only__"], random_shapes=(40 if tier == "quick" else 400), nmax=8, op_watchdog_s=20, **_seeds(seed + 88, k))
             for k in range(1 if tier == "quick" else 4)]
    # large DAGs (hundreds of nodes: chains, fans, grids, trees) terminate within the same step bound
    # termination does not depend on the application's executor, on the event loop in use, or on an earlier await that was cancelled
    jobs += [dict(kind="env", pid="C09", scenarios=["loops"], n_cases=(30 if tier == "quick" else 300),
                  only=["execution_handed_work_to_the_event_loops_default_executor", "await_in_*", "await_after_a_cancelled_await_in_the_same_loop_*"],
                  op_watchdog_s=30, **_seeds(seed + 89, k)) for k in range(2 if tier == "quick" else 6)]
    jobs += [dict(kind="scale", n_cases=(4 if tier == "quick" else 10), deep=True, nmin=150, nmax=(400 if tier == "quick" else 900), **_seeds(seed + 85, k))
             for k in range(2 if tier == "quick" else 8)]
    # "never returns normally while a selected active node has not run" also for executors that are run again after a failure
    jobs += [dict(kind="hist15", pid="C09", n_histories=(40 if tier == "quick" else 400), only=["executor_rerun_used_partially_consumed_graph"],
                  **_seeds(seed + 70, k)) for k in range(2 if tier == "quick" else 8)]
    # ... and for setup() / executor.setup() in both flavours: a setup operation that returns normally has run its selection
    jobs += [dict(kind="hist11", pid="C09", n_histories=(40 if tier == "quick" else 400), only=["setup_node_in_selection_did_not_run"],
                  **_seeds(seed + 75, k)) for k in range(2 if tier == "quick" else 8)]
    return dict(
        jobs=jobs, level="fault_enumeration",
        rule=RULE_SCHED + "; bounded progress: loop iterations <= 10N+20 (sys.monitoring JUMP count), no wait on something that "
        "can never finish, every operation reaches OP_END, a normal return implies every selected active node ran; "
        "fault position x completion order enumerated on the small shapes",
        assumptions=ASSUME_COMMON + ["unbounded liveness restated as bounded progress on logical steps; wall-clock watchdogs only yield 'inconclusive'"],
        required_reach=["STEP", "executions", "dfs_runs", "env_awaits_next_to_a_busy_default_executor", "node_failure_class:InjectedStop"], parallel=8 if tier == "quick" else 16,
    )


@plan("C14")
def c14(tier, seed):
    jobs = w3_jobs(seed) + sched_jobs(tier, seed, gen=dict(nmax=8, mc_max=4), faults=True, dfs=True, dfs_faults=True, scale=0.7)
    # identification clause for every kind of node (operators incl. reflected ones, methods, and_/or_/not_, nested DAG nodes, ...)
    jobs += [dict(kind="c14_loc", n_cases=(120 if tier == "quick" else 1200), **_seeds(seed + 60, k)) for k in range(2 if tier == "quick" else 8)]
    # "a call raises only because of a node failure or invalid arguments": valid calls, explicit setup() and repeated calls of DAGs
    # with setup nodes (some return None), fault-free
    jobs += sched_jobs(tier, seed + 41, gen=dict(nmin=3, nmax=8, mc_max=3, setup_rate=0.35), faults=False, dfs=False, stress=False, scale=0.25)
    # failures inside shapes of 40..170 call sites with levels much wider than the pool: nothing that was still waiting starts afterwards
    jobs += medium_jobs("C14", tier, seed, faults=True)
    return dict(
        jobs=jobs, level="fault_enumeration",
        rule=RULE_SCHED + RULE_W3 + "; fault plans = 1 or 2 call sites raising a marked exception (any resource; exceptions with one, several "
        "and no args, messages full of format directives); on the small shapes every single-fault position x every completion order is "
        "enumerated; plus one-statement-per-line programs (plain calls in every declaration form, binary / reflected / unary operator "
        "nodes, and_/or_/not_, decorated methods, nested DAG nodes; call, executor, deep copy, after config_from_dict) where each node in "
        "turn fails and the exception must name exactly that node and its exact file:line and carry the injected exception as cause",
        assumptions=ASSUME_COMMON, required_reach=["c14_raised", "c14_descendant_checks", "c14_failure_deliveries", "c14_loc_messages_checked",
                                                   "c14_loc_kind_reflected", "c14_loc_kind_meth", "c14_loc_kind_bool", "c14_loc_kind_un", "node_failure_class:InjectedStop", "node_failure_class:raised_from_a_lower_level_exception", "c14_base_exception_failures"],
        parallel=8 if tier == "quick" else 16,
    )


@plan("C07")
def c07(tier, seed):
    jobs = []
    if tier == "quick":
        hs = [0, 1, 2, 3]
        for h in hs:
            jobs.append(dict(kind="cp", exhaustive_n=[2, 3, 4], part=0, nparts=1, random_cases=30, seed=seed * 97 + h, hashseed=h,
                             variants={"target": "one", "root": 1, "exclude": 1, "config": 1, "debug": 1, "compose": 1, "retry": 1}))
            for q in range(2):
                jobs.append(dict(kind="cp", exhaustive_n=[5], part=2 * h + q, nparts=8, random_cases=0, seed=seed * 97 + 10 + 2 * h + q, hashseed=h,
                                 variants={"target": "one", "root": 1, "exclude": 1, "config": 1, "debug": 1, "compose": 1, "retry": 1}))
        ex = "all 74 DAGs on 2..4 topologically numbered nodes under each of PYTHONHASHSEED 0..3, all 1024 DAGs on 5 nodes (each under one of the 4 hash seeds)"
    else:
        hs = list(range(16))
        for h in hs:
            jobs.append(dict(kind="cp", exhaustive_n=[2, 3, 4, 5], part=0, nparts=1, random_cases=300, seed=seed * 97 + h, hashseed=h,
                             variants={"target": "all", "root": 1, "exclude": 1, "config": 1, "debug": 1, "compose": 1, "retry": 1}))
        for p in range(16):
            jobs.append(dict(kind="cp", exhaustive_n=[6], part=p, nparts=16, random_cases=0, seed=seed * 97 + 100 + p, hashseed=(p * 5 + 1) % 16,
                             variants={"target": "one", "root": 1, "exclude": 1, "config": 1, "debug": 1, "compose": 1, "retry": 1}))
        ex = "all DAGs on 2..5 nodes under 16 hash seeds with every single-target executor, all 32768 DAGs on 6 nodes (one hash seed each)"
    # the documented function also on DAGs of hundreds of nodes (a 520..700-node chain among them)
    jobs += [dict(kind="scale", pid="C07", n_cases=(1 if tier == "quick" else 4), nmin=150, nmax=400, **_seeds(seed + 59, k)) for k in range(1 if tier == "quick" else 4)]
    return dict(
        jobs=jobs, level="exploration", exhaustive=True,
        rule="exhaustive enumeration: " + ex + "; priorities are a permutation of distinct powers of ten so a table entry spells out "
        "which descendants were counted and how often; each shape x {call, executor(target), executor(root), executor(exclude), after "
        "config_from_dict}: table == own + sum over set of descendants of the FULL DAG, and with max_concurrency=1 the observed entry "
        "order == the unique greedy order; plus random larger DAGs (6..9 nodes); distinct = distinct (shape, priority vector)",
        assumptions=["the compound-priority table is read from DiGraphEx.compound_priority (internal name); the execution-order clause is "
                     "decided at the API level from FENTER events"],
        required_reach=["cp_table_checks", "order_checks", "FENTER", "cp_setup_runs", "cp_describing_functions_decorated_twice"], parallel=8 if tier == "quick" else 16,
    )


# ------------------------------------------------------------------------------------------------ differential
RULE_DIFF = (
    "generated describing functions (source text; positional/keyword/default/constant arguments, indexing and unpack_to, arithmetic / "
    "comparison / unary operators, and_/or_/not_, reused functions, None/single/tuple/list/dict returns, defaulted DAG parameters, "
    "twz_active / twz_tag, nested DAG calls) are exec-ed twice: with xn/dag objects and with the plain callables; each program x 3 "
    "argument tuples (fresh symbolic leaves and falsy/truthy constants) x a random configuration (max_concurrency 1..4, attributes "
    "given by decorator or config_from_dict/yaml/json, sync/async, controlled random completion order or free running); values are "
    "hash-consed symbolic terms compared by identity; non-trivial = reference returned normally and the program has >= 2 call "
    "sites; distinct = distinct (source hash, (observed enter/exit order, arguments, max_concurrency, flavour) hash)"
)
ASSUME_DIFF = [
    "the reference semantics is the same source text run with plain callables (a deactivated call yields None, a deactivated nested "
    "DAG yields its return shape filled with None)",
    "programs/arguments for which the plain-Python run raises are skipped and counted (ref_raised_skipped)",
    "outside the generated fragment (DESIGN.md section 6): same inner DAG object called twice in one DAG, inner DAG returning a "
    "constant, containers nested deeper than 1, indexing/unpacking/operators on the result of a flagged call",
]


def diff_jobs(pid, tier, seed, feats, depth, scale=1.0, clauses=True, only=None, nj_scale=1.0):
    if tier == "quick":
        nj, np_ = max(1, int(8 * nj_scale)), int(150 * scale)
    else:
        nj, np_ = max(2, int(32 * nj_scale)), int(900 * scale)
    return [dict(kind="diff", pid=pid, n_programs=np_, reps=3, feats=feats, depth=depth, clauses=clauses, only=only, **_seeds(seed + 50, k)) for k in range(nj)]


@plan("C01")
def c01(tier, seed):
    return dict(
        jobs=diff_jobs("C01", tier, seed, dict(flags=0.2, nest=0.15, nest_flag=0.15, share_fns=0.3), 2)
        # programs of hundreds of statements (a 520..700-step chain among them) are still just programs
        + [dict(kind="scale", pid="C01", n_cases=(1 if tier == "quick" else 4), nmin=150, nmax=400, **_seeds(seed + 57, k)) for k in range(1 if tier == "quick" else 4)]
        # the k-th call on ONE object (after calls, executors, composes, reloads, failing calls; both flavours) still returns what
        # plain Python returns; so does an executor that is run again
        + [dict(kind="hist15", pid="C01", n_histories=(40 if tier == "quick" else 400),
                only=["call_outcome_depends_on_earlier_history", "call_after_history_raised", "executor_rerun_used_partially_consumed_graph"],
                **_seeds(seed + 55, k)) for k in range(2 if tier == "quick" else 8)]
        # ... wherever the call is made: inside a node function of another DAG, by a worker thread, in a second event loop, on a copy
        + [dict(kind="env", pid="C01", n_cases=(60 if tier == "quick" else 600),
                only=["dag_called_from_a_node_body_*", "call_from_worker_thread_*", "await_in_*", "call_on_a_copied_or_copied_from_dag_wrong"],
                **_seeds(seed + 59, k)) for k in range(2 if tier == "quick" else 6)],
        level="exploration", rule=RULE_DIFF + "; plus histories on one DAG object (calls, executors, composes, configuration reloads, failing "
        "calls, executor re-runs) where every later call must still equal its plain-Python reference", assumptions=ASSUME_DIFF,
        required_reach=["value_comparisons", "programs", "FENTER", "XENTER", "cases_with_values_that_may_only_be_passed_on", "generic_context_checks"], parallel=8 if tier == "quick" else 16,
    )


@plan("C10")
def c10(tier, seed):
    return dict(
        jobs=diff_jobs("C10", tier, seed, dict(flags=0.5, nest=0.25, nest_flag=0.6, max_stmts=7, ops=0.08, kwargs=0.3, lazy_rate=0.25), 2)
        # flags fed by SETUP results over histories on one object (partial setup, executors, calls, deep copies, reloads): a node runs
        # iff its flag is truthy when the execution runs - also when the flag's producer had not run when setup() was called
        + [dict(kind="hist11", pid="C10", n_histories=(500 if tier == "quick" else 2000), require_flags=True,
                only=["executed_set_differs_from_model", "later_execution_does_not_see_first_setup_value"],
                **_seeds(seed + 45, k)) for k in range(2 if tier == "quick" else 8)]
        # a flag that is a DAG argument is evaluated for every call: IF a setup node carrying such a flag can be built at all, the
        # second call does not run on the first call's flag
        # wide last levels (8 .. 18 independent flagged leaves) with max_concurrency up to 16: every flag is still judged
        + diff_jobs("C10", tier, seed + 5, dict(flags=0.7, nest=0.1, nest_flag=0.3, max_stmts=18, ops=0.02, kwargs=0.2, mc_max=16, flat=0.4), 1, scale=0.3, nj_scale=0.5)
        + [dict(kind="comp19", pid="C10", n_cases=(600 if tier == "quick" else 2500),
                only=["composed_dag_ran_more_or_less_than_the_outputs_need", "composed_value_differs_from_substituted_pipeline"],
                **_seeds(seed + 49, k)) for k in range(2 if tier == "quick" else 6)]
        + [dict(kind="hist15", pid="C10", leak_only=True, n_histories=(3 if tier == "quick" else 20),
                only=["later_call_computed_from_an_earlier_calls_argument*"], **_seeds(seed + 47, 0))],
        level="exploration",
        rule=RULE_DIFF + "; plus histories (setup(targets), executors, calls, copies) on DAGs whose flags are results of setup nodes; flag forms: every truthy/falsy constant, DAG argument, node result, result[key], nested keys, unpacked element, "
        "and_/or_/not_ and operator expressions; positions: plain call site, reused function, call site inside an inner DAG, nested-DAG "
        "call. Per flagged call site: entered iff the flag is truthy in the reference run; every executed call site received the "
        "reference's argument terms (None from deactivated producers)",
        assumptions=ASSUME_DIFF,
        required_reach=["c10_flagged_sites", "c10_flag_truthy", "c10_flag_falsy", "c10_dependent_arg_checks"], parallel=8 if tier == "quick" else 16,
    )


@plan("C20")
def c20(tier, seed):
    return dict(
        jobs=diff_jobs("C20", tier, seed, dict(flags=0.1, nest=0.45, nest_flag=0.0, share_fns=0.6, max_stmts=7, seq=0.3), 3, scale=0.7)
        # DAGs obtained through compose() (node inputs incl. several usages of one function in any order) called inside an outer DAG
        + [dict(kind="comp19", pid="C20", n_cases=(150 if tier == "quick" else 1500),
                only=["composed_dag_cannot_be_nested_like_it_is_called", "nested_composed_dag_returns_another_value_than_the_direct_call"],
                **_seeds(seed + 7, k)) for k in range(2 if tier == "quick" else 8)]
        # nested calls and plain calls of the SAME functions carrying (mostly constant) activation flags: the helper nodes that hold
        # such constants are prefixed like everything else
        + diff_jobs("C20", tier, seed + 3, dict(flags=0.45, nest=0.45, nest_flag=0.5, share_fns=0.8, const_flag=0.6, max_stmts=6), 2, scale=0.4, nj_scale=0.5)
        # a DAG some of whose nodes are DAG OBJECTS (xn(inner_dag)) nested in an outer DAG returns what its direct call returns
        + [dict(kind="env", pid="C20", scenarios=["reentrant"], n_cases=(60 if tier == "quick" else 500),
                only=["dag_with_a_dag_object_as_node_function_wrong_when_*"], **_seeds(seed + 9, k)) for k in range(2 if tier == "quick" else 6)]
        # an inner DAG that is a chain of more than a thousand nodes (longer than the recursion limit), nested: same value as inlined
        + [dict(kind="scale", pid="C20", n_cases=(2 if tier == "quick" else 6), kinds=["nested_chain"], **_seeds(seed + 13, k)) for k in range(1 if tier == "quick" else 3)]
        # a nested call inside a describing function is inlined also while OTHER threads are building DAGs at the same time
        + [dict(kind="conc16", pid="C20", n_cases=(48 if tier == "quick" else 320), lockset=False,
                only=["overlapped_build_raised", "concurrent_build_raised", "dag_built_during_overlap_differs_from_dag_built_alone",
                      "dag_built_concurrently_differs_from_dag_built_alone"], **_seeds(seed + 11, k)) for k in range(2 if tier == "quick" else 6)],
        level="exploration",
        rule=RULE_DIFF + "; nesting to depth 3, inner signatures with required and defaulted parameters, call forms supplying fewer / all "
        "parameters as constants or results, all return shapes, outer unpack / static index / pass-on, the SAME decorated functions used "
        "inside and outside the inner DAG (id prefixing must keep them apart)",
        assumptions=ASSUME_DIFF, required_reach=["value_comparisons", "programs"], parallel=8 if tier == "quick" else 16,
    )


# ------------------------------------------------------------------------------------------------ selection / debug
@plan("C12")
def c12(tier, seed):
    jobs = []
    if tier == "quick":
        jobs.append(dict(kind="sel", exhaustive_n=[2, 3], random_shapes=0, **_seeds(seed, 0)))
        for p in range(4):
            jobs.append(dict(kind="sel", exhaustive_n=[], random_shapes=60, nmin=4, nmax=8, triples_per_shape=40, **_seeds(seed, 1 + p)))
        ex = "all DAGs on 2..3 nodes x every (R, X, T)"
    else:
        jobs.append(dict(kind="sel", exhaustive_n=[2, 3], random_shapes=0, **_seeds(seed, 0)))
        for p in range(16):
            jobs.append(dict(kind="sel", exhaustive_n=[4], part=p, nparts=16, random_shapes=120, nmin=5, nmax=9, triples_per_shape=60, **_seeds(seed, 1 + p)))
        ex = "all DAGs on 2..4 nodes x every (R, X, T)"
    # selections deep inside chains of 500 .. 1500 nodes (longer than the recursion limit): exactly the closure runs
    jobs += [dict(kind="scale", pid="C12", n_cases=(4 if tier == "quick" else 10), deep=True, nmin=150, nmax=(350 if tier == "quick" else 700), **_seeds(seed + 314, k)) for k in range(1 if tier == "quick" else 4)]
    # selections that name many nodes (explicit lists of more than 16 ids, a tag shared by more than 16 nodes) on wide DAGs
    jobs += [dict(kind="sel", exhaustive_n=[], random_shapes=0, wide_shapes=(6 if tier == "quick" else 40), triples_per_shape=25, **_seeds(seed + 73, k))
             for k in range(2 if tier == "quick" else 6)]
    # "already-computed nodes": what an inner DAG had set up before the outer DAG was described is already computed for the outer one
    jobs += [dict(kind="hist11", pid="C12", nested_only=True, n_histories=(60 if tier == "quick" else 600),
                  only=["setup_node_ran_more_than_once_on_one_instance"], **_seeds(seed + 71, k)) for k in range(1 if tier == "quick" else 4)]
    return dict(
        jobs=jobs, level="exploration", exhaustive=True,
        rule="exhaustive: " + ex + " with R over the non-empty subsets of the argument-less roots, X over subsets (size<=2) of the part "
        "selected by R, T over all subsets of nodes (invalid triples included: they must raise ValueError and run nothing); sampled "
        "triples on random DAGs with 4..9 nodes; aliases drawn from {node id, ExecNode reference, tag, shared tag, tag equal to another "
        "node's id}; with and without setup nodes; executed set (FENTER events) == the monitor's own three-step closure, returned tuple "
        "== reference run restricted to the closure (None elsewhere); distinct = distinct (shape, setup set, triple)",
        assumptions=["closure oracle: induced-subgraph semantics at each step in the documented order roots -> exclude -> targets",
                     "root_nodes are drawn from call sites without any argument (a call site with only constant/DAG-argument inputs is not a root for the code; DESIGN 6.4)",
                     "a string alias is resolved as a tag first, then as a node id (documented precedence)"],
        required_reach=["c12_valid_triples", "c12_invalid_triples", "c12_value_checks", "FENTER"], parallel=8 if tier == "quick" else 16,
    )


@plan("C13")
def c13(tier, seed):
    jobs = []
    if tier == "quick":
        for p in range(6):
            jobs.append(dict(kind="dbg", random_shapes=60, nmax=8, **_seeds(seed, p)))
        jobs.append(dict(kind="dbg", random_shapes=0, exhaustive_n=[2, 3], **_seeds(seed, 9)))
    else:
        for p in range(16):
            jobs.append(dict(kind="dbg", random_shapes=250, nmax=9, exhaustive_n=[4], part=p, nparts=16, **_seeds(seed, p)))
        jobs.append(dict(kind="dbg", random_shapes=0, exhaustive_n=[2, 3], **_seeds(seed, 99)))
    # the switch given the documented way - through the environment of the process - in its accepted spellings
    for k, (val, want) in enumerate([("True", True), ("true", True), ("1", True), ("False", False), ("0", False)]):
        jobs.append(dict(kind="dbg", random_shapes=5, nmax=6, env={"RUN_DEBUG_NODES": val}, expect_env_flag=want, **_seeds(seed + 30, k)))
    return dict(
        jobs=jobs, level="exploration",
        rule="RUN_DEBUG_NODES=<True|true|1|False|0> in the environment of fresh processes: the flag and the behaviour of a whole-DAG call follow it; "
        "DAG shapes (all on 2..3 nodes, thorough: ..4; random up to 9 nodes) with a random descendant-closed set of debug nodes (chains, "
        "multi-parent debug nodes) and optional setup nodes x {call, 5 random executors with root/exclude/target selections that may name "
        "debug nodes, setup(), setup(target)} x RUN_DEBUG_NODES off/on on freshly built DAGs; flag off: no debug FENTER; flag on: whole-DAG "
        "call runs every debug node once, a pulled-in debug node (outside the closure) has every dependency executed; non-debug executed "
        "sets, inputs and returned values identical in both settings; an illegal DAG (non-debug depends on debug) must fail to build; "
        "distinct = distinct (shape, debug set, operation)",
        assumptions=["RUN_DEBUG_NODES is process-global (tawazi.config.cfg): toggled between cases, single-threaded",
                     "a debug node inside the closure with a parent cut away by root_nodes follows C12 semantics and is not flagged (DESIGN 6.10)"],
        required_reach=["c13_flag_off_checks", "c13_whole_call_flag_on", "c13_pulled_in_debug_nodes", "c13_on_off_comparisons", "c13_illegal_build_rejected",
                        "c13_env_flag_checks", "c13_runs_after_config_reload", "c13_runs_on_a_deep_copy", "c13_shapes_with_prefix_named_functions"],
        parallel=8 if tier == "quick" else 16,
    )


# ------------------------------------------------------------------------------------------------ histories
@plan("C11")
def c11(tier, seed):
    nj, nh = (8, 250) if tier == "quick" else (32, 1200)
    return dict(
        jobs=[dict(kind="hist11", n_histories=nh, **_seeds(seed, k)) for k in range(nj)],
        level="exploration",
        rule="random histories (3..9 operations) over {call(args), executor(target selection)(args), setup(), setup(target_nodes), deepcopy} on "
        "generated DAGs (3..7 call sites, 1..4 setup nodes: independent, chained, one setup function reused with different constants), "
        "sync and async flavour, several live deep copies per history; sequential model per instance {setup id -> first value}; setup "
        "probes return a term carrying a global invocation number so that recomputed != reused; after every operation: executed set == "
        "selection minus already-set-up nodes, each once, no setup node twice on one instance, returned value == reference evaluated "
        "with the recorded first values; illegal DAGs (setup depending on a non-setup node / on a DAG argument) must fail to build; "
        "distinct = distinct (program, history)",
        assumptions=["successful operations only (as the property states)", "selections use target_nodes; C12 owns exclude/root semantics"],
        required_reach=["c11_ops", "c11_setup_entries", "c11_value_checks", "c11_deepcopies", "c11_illegal_build_rejected", "c11_illegal_build_rejected"],
        parallel=8 if tier == "quick" else 16,
    )


@plan("C15")
def c15(tier, seed):
    nj, nh = (8, 200) if tier == "quick" else (32, 1000)
    return dict(
        jobs=[dict(kind="hist15", n_histories=nh, **_seeds(seed, k)) for k in range(nj)]
        # a DAG returned by compose() is a DAG too: its second call does not remember the first one's arguments
        + [dict(kind="comp19", pid="C15", n_cases=(150 if tier == "quick" else 1500),
                only=["composed_dag_call_depends_on_an_earlier_call", "original_dag_executed_set_changed_after_compose", "original_dag_raises_after_compose",
                      "original_dag_structure_changed_by_compose", "original_dag_value_changed_after_compose"],
                **_seeds(seed + 33, k)) for k in range(2 if tier == "quick" else 8)]
        # at max_concurrency=1 with tie-free priorities the k-th call of one object starts its nodes in the same order as the first
        + [dict(kind="cp", pid="C15", exhaustive_n=[2, 3, 4] if tier == "quick" else [2, 3, 4, 5], part=0, nparts=1, random_cases=(20 if tier == "quick" else 200),
                seed=seed * 97 + 70 + h, hashseed=h, variants={"debug": 1, "retry": 1}) for h in range(1 if tier == "quick" else 4)]
        # "... except setup results": what an execution leaves on the instance about SETUP nodes must be their first value - never
        # a None for a setup node the execution did not select, never a value that makes a later execution skip or repeat one
        + [dict(kind="hist11", pid="C15", n_histories=(400 if tier == "quick" else 1500),
                only=["later_execution_does_not_see_first_setup_value", "setup_node_in_selection_did_not_run", "executed_set_differs_from_model"],
                **_seeds(seed + 35, k)) for k in range(2 if tier == "quick" else 8)]
        # "... never on executors created": a restart executor reads the cache file as it is NOW, not as an earlier executor of the
        # process found it under the same path
        + [dict(kind="cache18", pid="C15", n_cases=(120 if tier == "quick" else 1200), only=["restart_returns_values_of_an_older_cache_file_content"],
                **_seeds(seed + 37, k)) for k in range(2 if tier == "quick" else 8)]
        # "... never on DAGs composed from it" - nor on DAGs that NEST it: the inner DAG object called directly afterwards is unchanged
        + diff_jobs("C15", tier, seed + 9, dict(flags=0.1, nest=0.5, nest_flag=0.0, share_fns=0.5, max_stmts=6), 2, scale=0.4, nj_scale=0.5,
                    only=["nested_dag_object_behaves_differently_after_it_was_nested"])
        # copies (deepcopy, dill round trip) made before / after calls and failed calls behave like the freshly built DAG, and so does
        # the original; an await after a CANCELLED await; an inner DAG after it was called from node functions of another DAG
        + [dict(kind="env", pid="C15", scenarios=["copies", "loops", "reentrant"], n_cases=(150 if tier == "quick" else 900),
                only=["call_on_a_copied_or_copied_from_dag_wrong", "deepcopy_of_a_dag_raised", "await_after_a_cancelled_await_in_the_same_loop_*",
                      "dag_state_changed_by_calls_from_node_bodies", "execution_handed_work_to_the_event_loops_default_executor",
                      "dag_object_used_as_node_function_got_state_from_the_outer_executions"], **_seeds(seed + 39, k)) for k in range(2 if tier == "quick" else 6)],
        level="exploration",
        rule="histories with setup nodes (calls, executors with selections, setup(targets), deep copies, reloads; both flavours): setup "
        "results are the only state that survives and it is always the first value; random histories (2..8 operations) over {call with full args, call omitting the defaulted argument, executor create+run, executor "
        "created but not run, compose(...)+run of the composed DAG, config_from_dict reload, failing call (injected node fault), call with "
        "a missing required argument, call with a surplus argument, executor re-run after a failed first run, executor re-run after a "
        "successful first run} followed by one more call; every checked call uses fresh argument nonces and must return the reference "
        "value for its own arguments and execute exactly the active call sites; an executor's second run must raise TawaziUsageError or "
        "execute its complete selection and return the right value; distinct = distinct (program, history)",
        assumptions=["the call-history workload uses DAGs without setup nodes; setup state is covered by the (C11) setup-history workload run under this property's clause", "the DAG-level results key set is additionally compared before/after (internal attribute, secondary evidence)"],
        required_reach=["c15_checked_calls", "c15_executor_reruns_after_failure", "c15_executor_reruns_after_success", "env_copy_final_calls", "c15_dags_with_argument_fed_setup_node_refused_at_build"],
        parallel=8 if tier == "quick" else 16,
    )


@plan("C18")
def c18(tier, seed):
    nj, nc = (8, 250) if tier == "quick" else (32, 1200)
    return dict(
        jobs=[dict(kind="cache18", n_cases=nc, **_seeds(seed, k)) for k in range(nj)],
        level="exploration",
        rule="generated DAGs (3..7 call sites, all resources) x caching selection in {whole DAG, target nodes, cache_deps_of=[n]} written with "
        "cache_in, then a restart with from_cache on the same or a freshly built DAG with the caching run's arguments and a restart "
        "selection in {whole, same targets, other targets, cache_deps_of}; the pickle is inspected (cache_deps_of: every ancestor result of "
        "n, not n); restart: no FENTER of a node whose id is a key of the file, executed set == selection minus cached, value == un-cached "
        "reference; symbolic terms re-intern on unpickling so identity comparison survives; distinct = distinct (program, caching kw, restart kw)",
        assumptions=["the restart uses the caching run's arguments (restarting with other arguments is not determined by the statement)"],
        required_reach=["c18_cache_files", "c18_restarts", "c18_value_checks", "c18_cache_deps_of_restarts", "c18_cases_with_tags", "c18_cases_returning_constants_or_arguments", "c18_caching_run_and_restart_in_one_event_loop"],
        parallel=8 if tier == "quick" else 16,
    )


@plan("C19")
def c19(tier, seed):
    nj, nc = (8, 250) if tier == "quick" else (32, 1200)
    return dict(
        jobs=[dict(kind="comp19", n_cases=nc, **_seeds(seed, k)) for k in range(nj)],
        level="exploration",
        rule="generated DAGs (2..7 call sites, 0..2 DAG parameters with/without defaults, optional setup nodes run before or not, activation "
        "flags, indexed and keyword uses) x 4 random (inputs, outputs) pairs: inputs = node subsets + DAG parameters or Ellipsis, outputs = "
        "single alias or list; aliases drawn from {id, ExecNode, unique tag, shared (ambiguous) tag}; expected outcome from the monitor's own "
        "rules (ambiguous alias / input depends on input (parameters are nodes of the dependency relation) / missing required input -> "
        "ValueError); otherwise composed(values) == reference run of the original source with the input call sites overridden, executed set "
        "== what the outputs need stopping at the inputs; the original's structure fingerprint, value and executed set are compared "
        "before/after; distinct = distinct (program, inputs, outputs)",
        assumptions=["inputs and outputs are disjoint (the overlap is called ambiguous in the source; DESIGN 6.8)"],
        required_reach=["c19_composed_runs", "c19_valueerrors", "c19_original_unchanged_checks", "c19_input_used_as_activation_flag", "c19_input_used_indexed"],
        parallel=8 if tier == "quick" else 16,
    )


# ------------------------------------------------------------------------------------------------ concurrency
@plan("C16")
def c16(tier, seed):
    nj, nc = (8, 48) if tier == "quick" else (32, 320)
    return dict(
        jobs=[dict(kind="conc16", n_cases=nc, lockset=True, **_seeds(seed, k)) for k in range(nj)]
        # forced pre-emption at statement boundaries of tawazi's own code (sys.monitoring LINE events, ~15x slower)
        + [dict(kind="conc16", n_cases=(6 if tier == "quick" else 60), lockset=True, yield_inject=0.05, **_seeds(seed + 40, k))
           for k in range(2 if tier == "quick" else 8)]
        # re-entrancy: node functions of an outer DAG that call (or build and call) another DAG while they run - two call sites, two
        # worker threads; calls made by a thread that is not the main thread
        + [dict(kind="env", pid="C16", scenarios=["reentrant", "worker_thread"], n_cases=(60 if tier == "quick" else 500), **_seeds(seed + 45, k))
           for k in range(2 if tier == "quick" else 8)],
        level="exploration",
        rule="three workloads in rotation: (1) 2..16 threads x 1..3 calls of one generated DAG with distinct argument nonces (probes sleep 0..2 ms): "
        "every call returns the reference for its own arguments and the per-execution monitors C02-C05 hold inside every execution token; "
        "(2) thread A is paused INSIDE its describing function by a handshake (deterministic overlap) while thread B calls a shared DAG "
        "(must return its reference value) and a decorated function outside any DAG (must raise / run / warn as configured) and thread C "
        "builds another DAG: A's and C's DAG fingerprints (ids, attributes, references, constants, inputs, return shape, edges, priorities) "
        "equal those built alone; (3) 2..8 threads build DAGs concurrently with switch interval 1e-6: fingerprints equal those built alone; "
        "plus a lockset monitor: every access to the module-level build tables is made by the owner of the build lock; "
        "distinct = distinct (workload, programs, thread count / pause point)",
        assumptions=["setup nodes are excluded from the concurrent-call workload (the property says 'after its setup nodes have run')",
                     "thread pre-emption inside tawazi is explored statistically (tiny switch interval), the build/call overlap deterministically"],
        required_reach=["c16_concurrent_calls", "c16_build_overlaps", "c16_concurrent_builds", "c16_per_execution_monitor_runs", "c16_lockset_touches_checked", "c16_concurrent_cache_writes", "env_per_execution_monitor_runs", "env_worker_thread_cases"],
        parallel=8 if tier == "quick" else 16, timeout=1200,
    )


@plan("C17")
def c17(tier, seed):
    nj, nc = (8, 30) if tier == "quick" else (32, 200)
    return dict(
        jobs=[dict(kind="async17", n_cases=nc, big=(tier != "quick"), op_watchdog_s=30, **_seeds(seed, k)) for k in range(nj)]
        # "records the same setup results as the DAG" also for setup results an execution found in the cache file it was started from
        + [dict(kind="cache18", pid="C17", n_cases=(250 if tier == "quick" else 1500), only=["setup_result_taken_from_the_cache_file_was_not_kept_by_the_instance"],
                **_seeds(seed + 25, k)) for k in range(2 if tier == "quick" else 4)]
        # "executes the same nodes and records the same setup results as the DAG": the setup histories (executor(selection).setup(),
        # setup(selection), tags spelled like ids, ...) on AsyncDAGs only, against the model every DAG satisfies
        + [dict(kind="hist11", pid="C17", flavour="async", n_histories=(200 if tier == "quick" else 800),
                only=["executed_set_differs_from_model", "later_execution_does_not_see_first_setup_value", "ran_setup_node_the_selection_does_not_need",
                      "setup_node_in_selection_did_not_run"], **_seeds(seed + 27, k)) for k in range(3 if tier == "quick" else 8)]
        # one AsyncDAG in several event loops one after the other, in a loop with a one-worker default executor, and awaited again after
        # an await that was cancelled in flight
        + [dict(kind="env", pid="C17", scenarios=["loops"], n_cases=(40 if tier == "quick" else 400), **_seeds(seed + 29, k)) for k in range(2 if tier == "quick" else 6)]
        # an executor of an AsyncDAG that is run again behaves like a DAG's (refuses, or runs its whole selection from scratch); an
        # AsyncDAG shared with threads that build DAGs meanwhile is still called, not traced
        + [dict(kind="hist15", pid="C17", n_histories=(150 if tier == "quick" else 1000), only=["executor_rerun_used_partially_consumed_graph"],
                **_seeds(seed + 31, k)) for k in range(2 if tier == "quick" else 6)]
        + [dict(kind="conc16", pid="C17", n_cases=(48 if tier == "quick" else 320), lockset=False,
                only=["dag_call_during_other_threads_build_raised", "dag_call_during_other_threads_build_returned_wrong_value", "concurrent_call_raised",
                      "concurrent_call_got_result_for_other_arguments_or_wrong_value"], **_seeds(seed + 33, k)) for k in range(2 if tier == "quick" else 6)],
        level="exploration",
        rule="per case: (1) one generated program (2..8 call sites, all resources, flags, optional setup nodes) built as DAG and as AsyncDAG and "
        "run under the controller or free: value, multiset of entered call sites and recorded setup results must be equal (and equal to the "
        "reference); (2) 2..30 (thorough: ..100) concurrent awaits of one AsyncDAG gathered in one loop with distinct argument nonces: each "
        "gets its own reference value, no call site entered twice in one execution; (3) an AsyncDAG whose pooled nodes are all async-thread "
        "(+ main-thread) is awaited next to a sibling coroutine; every async-thread probe asks the loop to serve a handshake - a time-out "
        "triggers 20 stack samples of the loop thread: all inside tawazi => the scheduler blocks the loop (violation), otherwise "
        "inconclusive; distinct = distinct (program, number of awaits, liveness program)",
        assumptions=["liveness clause excludes AsyncDAGs containing thread-resource nodes (documented blocking; DESIGN 6.7)"],
        required_reach=["c17_flavour_pairs", "c17_concurrent_awaits", "c17_liveness_handshakes", "c17_liveness_served", "c17_setup_result_comparisons", "c17_capacity_cases", "env_event_loop_cases", "env_cancelled_executions_checked", "generic_context_checks"],
        parallel=8 if tier == "quick" else 16, timeout=1200,
    )
