"""Job kinds executed inside a worker process."""
from __future__ import annotations

import random
import zlib
from collections import Counter

from . import bootstrap as B
from . import probes, sched, spec as S
from .sym import Sym

REGISTRY = {}


def job(name):
    def deco(f):
        REGISTRY[name] = f
        return f

    return deco


def dispatch(j):
    # late imports so that every module registers its job kinds
    from . import cpjobs, diffjobs, histjobs, seljobs, concjobs, compjobs, locjobs, envjobs  # noqa: F401

    return REGISTRY[j["kind"]](j)


CURRENT = {"col": None, "out": None}


def panic(reason):
    """Write what the current collector holds and leave the process (used when the scheduler is hung)."""
    import json
    import os

    col = CURRENT["col"]
    res = col.result() if col is not None else {}
    res.setdefault("inconclusive", [])
    if reason:
        res["inconclusive"].append(reason)
    res["reach"] = dict(B.REACH)
    res["panic"] = True
    if CURRENT["out"]:
        with open(CURRENT["out"], "w") as f:
            json.dump(res, f, default=repr)
    os._exit(0)


def on_hang(label, thread, waited):
    """Watchdog = trigger, stack = verdict (DESIGN 2.9): sample the hung client thread 20x."""
    import sys
    import time
    import traceback

    samples = []
    for _ in range(20):
        fr = sys._current_frames().get(thread)
        st = traceback.extract_stack(fr) if fr else []
        tw = [x for x in st if "/tawazi/" in x.filename]
        top = st[-1] if st else None
        in_selector = any("selectors" in x.filename for x in st[-2:])
        in_harness = bool(st) and "/twzmon/" in st[-1].filename
        if tw and not in_selector and not in_harness:
            samples.append("tawazi:%s:%d" % (tw[-1].name, tw[-1].lineno))
        elif in_selector:
            samples.append("idle-selector")
        else:
            samples.append("other:%s" % (top.name if top else "?"))
        time.sleep(0.01)
    col = CURRENT["col"]
    from collections import Counter as _C

    cnt = dict(_C(samples))
    if col is not None and all(x.startswith("tawazi:") for x in samples):
        w = dict(operation=label, waited_s=round(waited, 1), client_thread_stack_samples=cnt)
        col.violation("C09", "scheduler_thread_stuck_inside_tawazi", w, {"kind": "hang", "label": label})
        if label.startswith(("await", "gather")):
            col.violation("C17", "event_loop_blocked_by_scheduler", w, {"kind": "hang", "label": label})
        panic(None)
    panic("operation %r hung for %.0fs; client thread not inside tawazi (%s)" % (label, waited, cnt))


class Collector:
    def __init__(self, max_per_mech=3, max_samples=3):
        CURRENT["col"] = self
        self.evaluations = 0
        self.hashes = set()
        self.counters = Counter()
        self.violations = []
        self.per_mech = Counter()
        self.inconclusive = []
        self.soft_inconclusive = []
        self.samples = []
        self.max_per_mech = max_per_mech
        self.max_samples = max_samples

    def violation(self, prop, mech, witness, replay):
        self.counters["viol:%s:%s" % (prop, mech)] += 1
        self.per_mech[(prop, mech)] += 1
        if self.per_mech[(prop, mech)] <= self.max_per_mech:
            self.violations.append({"prop": prop, "mech": mech, "witness": S.jsonable(witness), "replay": replay})

    def generic(self, log, replay):
        """Run the spec-free per-execution monitors (C02-C05, C14) on any log."""
        viol, st = sched.check_generic(log)
        self.counters.update(st)
        for x in viol:
            self.violation(x["prop"], x["mech"], x["witness"], replay)
        return viol

    def sample(self, s):
        if len(self.samples) < self.max_samples:
            self.samples.append(S.jsonable(s))

    def result(self):
        return {
            "evaluations": self.evaluations,
            "hashes": sorted(self.hashes),
            "counters": dict(self.counters),
            "violations": self.violations,
            "inconclusive": self.inconclusive[:20],
            "soft_inconclusive": self.soft_inconclusive[:20],
            "samples": self.samples,
        }


class Filtered:
    """Collector proxy: a check for another property re-uses a workload and reports only its own clauses."""

    def __init__(self, real, only):
        object.__setattr__(self, "_real", real)
        object.__setattr__(self, "_only", only)

    def __getattr__(self, k):
        return getattr(self._real, k)

    def __setattr__(self, k, v):
        setattr(self._real, k, v)

    def violation(self, p, mech, w, r):
        if self._only is None or mech in self._only or any(o.endswith("*") and mech.startswith(o[:-1]) for o in self._only):
            self._real.violation(p, mech, w, r)
        else:
            self._real.counters["other_clause:" + mech] += 1


class ScriptChooser:
    """Replays recorded picks (labels); falls back to the first candidate when the script runs out."""

    def __init__(self, picks):
        self.picks = [list(p) for p in picks]
        self.i = 0
        self.diverged = False

    def __call__(self, ex, point, cands, others, rw):
        if self.i < len(self.picks):
            p = self.picks[self.i]
            self.i += 1
            allc = set(cands) | set(others)
            if all(x in allc for x in p):
                return p
            self.diverged = True
        if point == "inline":
            return []
        return list(cands) if rw == B.ALL_COMPLETED else list(cands[:1])


def case_replay(case, mode):
    picks = [e["picked"] for e in case["log"] if e["kind"] == "CHOICE"]
    return {
        "kind": "sched_case",
        "spec": case["spec"],
        "op": case["op"],
        "faults": case["faults"],
        "mode": mode,
        "picks": picks,
        "located": case.get("located", True),
        "fault_base": case.get("fault_base", False),
        "source": S.render(case["spec"]),
        "events": sched.excerpt(case, 80),
    }


def sample_of(case, v):
    return {
        "source": S.render(case["spec"]),
        "attrs": {k: [f.get("priority"), f.get("is_sequential"), f.get("resource")] for k, f in case["spec"]["fns"].items()},
        "max_concurrency": case["spec"].get("mc"),
        "is_async": case["spec"].get("is_async"),
        "op": case["op"],
        "faults": case["faults"],
        "enter_exit_order": [(e["kind"][1], e["node"]) for e in case["log"] if e["kind"] in ("FENTER", "FEXIT")][:40],
        "outcome": case["res"][0] if case["res"][0] == "ok" else "raised %s" % type(case["res"][1]).__name__,
    }


def pick_op(rng, spec, ids, selections):
    if not selections or rng.random() < 0.35:
        return {"kind": "call"}
    if spec.get("run_debug"):
        # debug nodes switched on: an executor selection is extended by the debug nodes whose dependencies all run (C13's
        # subject, modelled in seljobs); the scheduling workloads keep such shapes on the plain call
        return {"kind": "call"}
    if any(fs.get("tag") in ids for fs in spec["fns"].values()):
        return {"kind": "call"}  # a tag spelled like a node id: the id strings used below would denote the tagged nodes
    nested = bool(spec.get("nest"))
    g = S.site_graph(spec)
    n = len(ids)
    op = {"kind": "executor"}
    roots = [i for i in range(n) if not S.deps_of(spec["nodes"][i]) and not spec["nodes"][i]["args"]
             and not spec["nodes"][i]["kwargs"] and spec["nodes"][i]["active"] is None]
    sel = set(range(n))
    r = rng.random()
    if roots and r < 0.3 and not nested:
        # (root selections are not combined with nested blocks: the inner DAG's argument stubs are nodes of their own, a DAG
        # argument reaches an inner node only through them, and what a root selection does to them is C12's question, not the schedule's)
        rs = rng.sample(roots, rng.randint(1, len(roots)))
        op["root_nodes"] = [ids[i] for i in rs]
        sel = S.closure(spec, rs, None, None)
    if sel and rng.random() < 0.3:
        xs = rng.sample(sorted(sel), 1)
        op["exclude_nodes"] = [ids[i] for i in xs]
        sel = S.closure(spec, [ids.index(a) for a in op["root_nodes"]] if "root_nodes" in op else None, xs, None)
    if sel and rng.random() < 0.7:
        ts = rng.sample(sorted(sel), rng.randint(1, min(3, len(sel))))
        op["target_nodes"] = [ids[i] for i in ts]
    if len(op) == 1:
        return {"kind": "call"}
    return op


PROFILE_SWITCHES = [0]
TWIN_ADDRS: set = set()  # addresses of the graphs of re-wired twins seen so far in this process (evidence of address re-use)


def _flag_spelling(rng, b):
    """is_sequential in a configuration: a bool, or (as configuration files written by other tools have it) 1 / 0."""
    if rng.random() < 0.25:
        return 1 if b else 0
    return b


def reconfigure(rng, sp, d, ids, mc_max, keep_mc=0.4):
    """Re-configure a built DAG (max_concurrency by config or attribute assignment; PARTIAL per-node configs that name only
    priority or only is_sequential). Returns the spec the monitors must use afterwards."""
    import copy

    sp = copy.deepcopy(sp)
    conf = {}
    if rng.random() >= keep_mc:
        new_mc = rng.randint(1, mc_max)
        sp["mc"] = new_mc
        if rng.random() < 0.4:
            d.max_concurrency = new_mc
        else:
            conf["max_concurrency"] = new_mc
    nodes_conf = {}
    uses = {}
    for nd in sp["nodes"]:
        uses[nd["fn"]] = uses.get(nd["fn"], 0) + 1
    all_tags = sorted({fs["tag"] for fs in sp["fns"].values() if fs.get("tag") is not None})
    by_tag = set()
    if all_tags and rng.random() < 0.6:
        # configuration BY TAG: every node carrying the tag is re-configured (and a node whose id merely equals the tag is not)
        t = rng.choice(all_tags)
        c = {}
        if rng.random() < 0.6:
            c["is_sequential"] = rng.random() < 0.6
        if not c or rng.random() < 0.5:
            c["priority"] = rng.choice([0, 2, 6, 9] if sp.get("nest") else [-3, 0, 2, 6, 9])
        for fn, fs in sp["fns"].items():
            if fs.get("tag") == t:
                fs.update(c)
                by_tag.add(fn)
        nodes_conf[t] = dict(c)
        if "is_sequential" in c:
            nodes_conf[t]["is_sequential"] = _flag_spelling(rng, c["is_sequential"])
    for i, nd in enumerate(sp["nodes"]):
        if uses[nd["fn"]] != 1 or rng.random() > 0.4 or nd["fn"] in by_tag or ids[i] in all_tags:
            continue
        c = {}
        if rng.random() < 0.75:
            c["priority"] = rng.choice([0, 1, 2, 4, 7, 9] if sp.get("nest") else [-3, 0, 1, 2, 4, 7, 9])
            sp["fns"][nd["fn"]]["priority"] = c["priority"]
        if rng.random() < 0.25:
            c["is_sequential"] = rng.random() < 0.5
            sp["fns"][nd["fn"]]["is_sequential"] = c["is_sequential"]
            c["is_sequential"] = _flag_spelling(rng, c["is_sequential"])
        if c:
            nodes_conf[ids[i]] = c
    if nodes_conf:
        conf["nodes"] = nodes_conf
    if conf:
        via = rng.choice(["dict", "dict", "yaml", "json"])
        sp.setdefault("history", []).append(["config_from_" + via, conf, "attribute max_concurrency=%s" % sp["mc"] if "max_concurrency" not in conf else None])
        if via == "dict":
            other = copy.deepcopy(conf)
            d.config_from_dict(conf)
            if rng.random() < 0.35:
                # configuration PROFILES kept as dict objects by the caller: A, then B (same keys, other values), then the very
                # object A again - the DAG is configured as A says
                if "max_concurrency" in other:
                    other["max_concurrency"] = other["max_concurrency"] % mc_max + 1
                for c in other.get("nodes", {}).values():
                    if "priority" in c:
                        c["priority"] = c["priority"] + 5
                    if "is_sequential" in c:
                        c["is_sequential"] = not c["is_sequential"]
                d.config_from_dict(other)
                d.config_from_dict(conf)
                sp["history"][-1].append("then a second profile with the same keys, then this dict object once more")
                PROFILE_SWITCHES[0] += 1
        else:
            import json as _json
            import os
            import tempfile

            fd, path = tempfile.mkstemp(prefix="twzconf_", suffix="." + via)
            try:
                with os.fdopen(fd, "w") as f:
                    if via == "json":
                        _json.dump(conf, f)
                    else:
                        import yaml

                        yaml.safe_dump(conf, f)
                getattr(d, "config_from_" + via)(path)
            finally:
                os.unlink(path)
    return sp


def eval_case(col, case, mode, focus=None):
    viol, st, v = sched.check_all(case)
    col.evaluations += 1
    col.counters.update(st)
    if case["res"][0] != "ok":
        col.counters["op_raised:" + type(case["res"][1]).__name__] += 1
    if case["ref"][0] != "ok":
        col.counters["ref_raised"] += 1
    if v.bypassed if v.tok is not None else False:
        # wall-clock safety valve fired (loaded machine): the case is excluded from every schedule-dependent verdict and
        # counted; the runner turns the whole check inconclusive only if such cases are more than a negligible fraction
        col.counters["cases_skipped_controller_bypassed"] += 1
        col.soft_inconclusive.append("controller bypassed (%s)" % [e.get("why") for e in case["log"] if e["kind"] == "BYPASS"][:1])
        return []
    nsites = len(case["ids"])
    if nsites >= 2 and (st.get("c06_decisions", 0) or st.get("c08_waits", 0)):
        col.hashes.add(S.spec_hash(case["spec"]) + sched.order_hash(case) + "%08x" % zlib.crc32(repr((case["op"], case["faults"])).encode()))
    rp = None
    gviol, gst = sched.check_generic(case["log"])
    col.counters.update(gst)
    for x in list(viol) + list(gviol):
        if rp is None:
            rp = case_replay(case, mode)
        col.violation(x["prop"], x["mech"], x["witness"], rp)
    if not viol or col.evaluations % 50 == 1:
        col.sample(sample_of(case, v))
    return viol


@job("sched")
def job_sched(j):
    rng = random.Random(j["seed"])
    col = Collector()
    mode = j.get("mode", "ctl")
    if mode == "stress":
        import sys

        sys.setswitchinterval(1e-5)
        B.Settings.stress_sleep = 0.002
    for _it in range(j["n_cases"]):
        sp = sched.gen_shape(rng, **j.get("gen", {}))
        fl = j.get("flavour", "both")
        sp["is_async"] = (rng.random() < 0.4) if fl == "both" else (fl == "async")
        if j.get("mc") is not None:
            sp["mc"] = j["mc"]
        located = True
        # plain probes also for setup functions: their values must be the reference's terms (no invocation numbers here)
        plain0 = {name: probes.mkprobe(name, shape=tuple(fs["shape"]) if fs.get("shape") else None) for name, fs in sp["fns"].items()}
        try:
            if j.get("faults") and rng.random() < 0.2:
                # no stack-frame support (as in the repository's own test): call locations are unknown
                from unittest import mock

                with mock.patch("inspect.currentframe", return_value=None):
                    d, _env, plain = S.build_tawazi(sp, plain=plain0)
                located = False
                col.counters["dags_built_without_frame_support"] += 1
            else:
                d, _env, plain = S.build_tawazi(sp, plain=plain0)
        except BaseException as e:  # noqa: BLE001
            col.counters["build_error:%s" % type(e).__name__] += 1
            col.inconclusive.append("build failed for generated shape: %r" % (e,))
            continue
        ids = S.node_ids(sp)
        if any(fs.get("alias_of") for fs in sp["fns"].values()):
            col.counters["shapes_with_two_decorated_functions_of_one_qualified_name"] += 1
        if sp.get("nest"):
            col.counters["shapes_with_a_block_written_as_inner_dag"] += 1
            if located and rng.random() < 0.3:
                # the inner DAG object is RE-CONFIGURED and then nested once more, in a second outer DAG: the second outer DAG
                # schedules the inner nodes as they are configured now (the first one was described before the reload)
                import copy

                a0, b0 = sp["nest"]["first"], sp["nest"]["last"]
                uses_ = Counter(nd["fn"] for nd in sp["nodes"])
                all_tags_ = {fs.get("tag") for fs in sp["fns"].values()}
                # (the reload addresses the inner node by its id: not usable when some tag is spelled like that id - a tag wins)
                cand = [i for i in range(a0, b0 + 1) if uses_[sp["nodes"][i]["fn"]] == 1 and ids[i].split(".", 1)[1] not in all_tags_]
                if cand:
                    i0 = rng.choice(cand)
                    sp2 = copy.deepcopy(sp)
                    newv = {"is_sequential": not sp["fns"][sp["nodes"][i0]["fn"]].get("is_sequential", False), "priority": rng.choice([0, 3, 8])}
                    sp2["fns"][sp2["nodes"][i0]["fn"]].update(newv)
                    try:
                        _env["nin"].config_from_dict({"nodes": {ids[i0].split(".", 1)[1]: newv}})
                        d, _env, plain = S.build_tawazi(sp2, plain=plain0, inner_dag=_env["nin"])
                        sp = sp2
                        sp.setdefault("history", []).append(["inner_dag_reconfigured_and_nested_again", ids[i0], newv])
                        col.counters["inner_dag_reconfigured_and_nested_again"] += 1
                    except BaseException as e:  # noqa: BLE001
                        col.violation("C20", "reconfigured_inner_dag_could_not_be_nested_again", dict(exc=repr(e)[:300], source=S.render(sp)),
                                      {"kind": "rerun_job", "job": dict(j)})
                        continue
        if set(ids) - set(d.exec_nodes):
            col.inconclusive.append("predicted node ids not found in DAG: %s" % sorted(set(ids) - set(d.exec_nodes))[:3])
            continue
        pre_values = {}  # setup results already on this DAG instance: site -> value
        sset = sched.setup_sites(sp)
        if not sset and rng.random() < j.get("compose_rate", 0.12):
            # the same nodes scheduled by a DAG obtained through compose(): every DAG argument as input, every sink as output,
            # its own max_concurrency (and flavour) given to compose()
            import copy
            import warnings

            g0 = S.site_graph(sp)
            sinks = [d.get_node_by_id(ids[i]) for i in range(len(ids)) if g0.out_degree(i) == 0]  # references: ids may be spelled like tags
            sp2 = copy.deepcopy(sp)
            sp2["mc"] = rng.randint(1, j.get("gen", {}).get("mc_max", 4))
            kwc = {"max_concurrency": sp2["mc"]}
            if rng.random() < 0.3:
                sp2["is_async"] = not sp["is_async"]
                kwc["is_async"] = sp2["is_async"]
            try:
                with warnings.catch_warnings():
                    warnings.simplefilter("ignore")
                    dc = d.compose(sp["name"] + "_composed", ..., sinks, **kwc)
            except BaseException as e:  # noqa: BLE001
                col.counters["compose_refused:%s" % type(e).__name__] += 1
            else:
                if set(ids) - set(dc.exec_nodes):
                    col.counters["composed_dag_misses_nodes"] += 1
                else:
                    d, sp = dc, sp2
                    sp.setdefault("history", []).append(["composed", S.jsonable(kwc)])
                    col.counters["composed_dags_scheduled"] += 1
        reconf_at = None
        if rng.random() < j.get("reconfig", 0.45):
            reconf_at = rng.choice([0, 1])  # before the first call, or after it (call, reload, call on one object)
        for _rep in range(j.get("reps", 2)):
            if reconf_at == _rep:
                if rng.random() < 0.25:
                    # a deep copy of the DAG is configured differently first (and dropped): the two objects share nothing
                    import copy as _copy

                    try:
                        twin_ = _copy.deepcopy(d)
                        reconfigure(random.Random(rng.random()), sp, twin_, ids, j.get("gen", {}).get("mc_max", 4), keep_mc=0.0)
                        col.counters["deep_copies_configured_differently_before_the_reload"] += 1
                    except BaseException as e:  # noqa: BLE001
                        if isinstance(e, (KeyboardInterrupt, SystemExit)):
                            raise
                        col.counters["deep_copy_or_its_reload_refused:%s" % type(e).__name__] += 1
                sp = reconfigure(rng, sp, d, ids, j.get("gen", {}).get("mc_max", 4))
                if rng.random() < 0.12:
                    # ... and what is scheduled from here on is a shallow copy (copy.copy) of the re-configured object
                    import copy as _copy

                    d = _copy.copy(d)
                    col.counters["shallow_copies_of_reconfigured_dags_scheduled"] += 1
                if rng.random() < 0.4:
                    # ... and a SECOND reload right after it: what the first one set and the second one does not mention stays set
                    sp = reconfigure(rng, sp, d, ids, j.get("gen", {}).get("mc_max", 4), keep_mc=0.6)
                    col.counters["dags_reconfigured_twice"] += 1
                col.counters["reconfigured_dags_%s" % ("before_first_call" if _rep == 0 else "between_calls")] += 1
            op = pick_op(rng, sp, ids, j.get("selections", False))
            if sset and _rep == 0 and rng.random() < 0.5:
                op = {"kind": "setup"}  # an explicit setup() before the first call
            if sp.get("run_debug"):
                op = {"kind": "call"}
                col.counters["cases_with_debug_nodes_switched_on"] += 1
            pre_ex = None
            if op.get("kind") == "executor" and not sp.get("nest") and rng.random() < 0.2:
                # the executor is created FIRST, then some nodes are made (non-)sequential by a reload that names nothing else, then
                # the executor runs: it schedules the DAG as it is configured when it runs
                uses_ = {}
                for nd_ in sp["nodes"]:
                    uses_[nd_["fn"]] = uses_.get(nd_["fn"], 0) + 1
                tags_ = {fs_.get("tag") for fs_ in sp["fns"].values()}
                named_ = [q for q, nd_ in enumerate(sp["nodes"]) if uses_[nd_["fn"]] == 1 and ids[q] not in tags_ and rng.random() < 0.5]
                if named_:
                    kw_ = {k_: op[k_] for k_ in ("target_nodes", "exclude_nodes", "root_nodes") if op.get(k_) is not None}
                    try:
                        pre_ex = d.executor(**S.spell_selections(kw_))
                    except BaseException as e:  # noqa: BLE001
                        if isinstance(e, (KeyboardInterrupt, SystemExit)):
                            raise
                        pre_ex = None
                    if pre_ex is not None:
                        import copy as _copy

                        sp = _copy.deepcopy(sp)
                        conf_ = {}
                        for q in named_:
                            v_ = rng.random() < 0.6
                            sp["fns"][sp["nodes"][q]["fn"]]["is_sequential"] = v_
                            conf_[ids[q]] = {"is_sequential": v_}
                        d.config_from_dict({"nodes": conf_})
                        sp.setdefault("history", []).append(["executor created, then config_from_dict", conf_, "then the executor is run"])
                        col.counters["executors_created_before_a_reload_of_is_sequential"] += 1
            faults = []
            if j.get("faults") and op.get("kind") != "setup" and not sset and rng.random() < j.get("fault_rate", 1.0):
                k = 1 if rng.random() < 0.7 else 2
                faults = rng.sample(ids, min(k, len(ids)))
            fault_base = bool(faults) and rng.random() < 0.12
            if fault_base:
                col.counters["cases_whose_failing_nodes_raise_a_BaseException"] += 1
            args = [Sym("arg", rng.randrange(1 << 30))]
            # configuration axis: profiling of all nodes on/off (process-global tawazi.config.cfg)
            from tawazi.config import cfg as _cfg

            prof = rng.random() < 0.25
            old_prof = _cfg.TAWAZI_PROFILE_ALL_NODES
            _cfg.TAWAZI_PROFILE_ALL_NODES = prof
            try:
                case = sched.run_case(sp, op=op, args=args, faults=faults, controlled=(mode == "ctl"), d=d, plain=plain,
                                      pre_values=pre_values, fault_base=fault_base, executor=pre_ex)
            finally:
                _cfg.TAWAZI_PROFILE_ALL_NODES = old_prof
            if sset and case["res"][0] == "ok":
                for e in case["log"]:
                    if e["kind"] == "FEXIT" and e.get("ok") and e["node"] in ids and ids.index(e["node"]) in sset:
                        pre_values.setdefault(ids.index(e["node"]), e["value"])
                if op.get("kind") == "setup":
                    col.counters["setup_operations"] += 1
            if prof:
                col.counters["cases_with_profiling_on"] += 1
            case["located"] = located
            eval_case(col, case, mode)
        if located and not sset and not sp.get("nest") and not sp.get("run_debug") and rng.random() < 0.2:
            # a RE-WIRED twin: the same call sites, names and options with one dependency taken from another producer, built right
            # after the first DAG was dropped (a pipeline re-built from edited source in one process): ids are the same, edges not
            import copy as _copy
            import gc

            sp2 = _copy.deepcopy(sp)
            cands = []
            for i2, nd2 in enumerate(sp2["nodes"]):
                for a2 in nd2["args"]:
                    if a2[0] == "n" and not a2[2]:
                        same_kind = [q for q in range(i2) if q != a2[1] and sp2["fns"][sp2["nodes"][q]["fn"]].get("shape") == sp2["fns"][sp2["nodes"][a2[1]]["fn"]].get("shape")
                                     and not any(x[0] == "n" and x[1] == q for x in list(nd2["args"]) + list(nd2["kwargs"].values()))]
                        if same_kind:
                            cands.append((a2, same_kind))
            sp2.pop("history", None)
            d = None
            case = None
            for _round in range(5 if cands else 0):
                # (several edits in a row: each DAG is dropped before the next one is built)
                a2, opts = rng.choice(cands)
                a2[1] = rng.choice(opts)
                d2 = case2 = None
                gc.collect()
                try:
                    d2, _env2, plain2 = S.build_tawazi(sp2, plain=plain0)
                except BaseException as e:  # noqa: BLE001
                    if isinstance(e, (KeyboardInterrupt, SystemExit)):
                        raise
                    col.counters["rewired_twin_build_error:%s" % type(e).__name__] += 1
                    break
                if id(d2.graph_ids) in TWIN_ADDRS:
                    col.counters["rewired_twins_whose_graph_took_the_address_of_a_dropped_one"] += 1
                TWIN_ADDRS.add(id(d2.graph_ids))
                case2 = sched.run_case(_copy.deepcopy(sp2), op={"kind": "call"}, args=[Sym("arg", rng.randrange(1 << 30))], faults=[], controlled=(mode == "ctl"), d=d2, plain=plain2)
                case2["located"] = True
                col.counters["rewired_twins_built_after_the_first_dag_was_dropped"] += 1
                eval_case(col, case2, mode)
                case2["dag"] = None
    return col.result()


def explore(col, sp, d, plain, op, faults, limit, mode="ctl"):
    """Exhaustive DFS over controller choices by prefix replay (DESIGN 2.3)."""
    prefix = []
    runs = 0
    complete = False
    while True:
        ch = B.PrefixChooser(prefix)
        case = sched.run_case(sp, op=op, args=[Sym("arg", 0)], faults=faults, controlled=True, chooser=ch, d=d, plain=plain)
        runs += 1
        eval_case(col, case, mode)
        if ch.diverged:
            col.counters["dfs_diverged"] += 1
        tr = ch.trace
        k = len(tr) - 1
        while k >= 0 and tr[k][1] + 1 >= tr[k][0]:
            k -= 1
        if k < 0:
            complete = True
            break
        if runs >= limit:
            break
        prefix = [t[1] for t in tr[:k]] + [tr[k][1] + 1]
    return runs, complete


@job("sched_dfs")
def job_sched_dfs(j):
    rng = random.Random(j["seed"])
    col = Collector()
    nshapes = 0
    ncomplete = 0
    for _it in range(j["n_shapes"]):
        sp = sched.gen_shape(rng, **j.get("gen", {"nmax": 6, "mc_max": 3}))
        fl = j.get("flavour", "both")
        sp["is_async"] = (rng.random() < 0.3) if fl == "both" else (fl == "async")
        try:
            d, _env, plain = S.build_tawazi(sp)
        except BaseException as e:  # noqa: BLE001
            col.inconclusive.append("build failed: %r" % (e,))
            continue
        ids = S.node_ids(sp)
        plans = [[]]
        if j.get("faults"):
            plans = [[x] for x in ids]
            if j.get("faults") == "pairs" and len(ids) >= 2:
                plans.append(rng.sample(ids, 2))
        for faults in plans:
            op = {"kind": "call"}
            if j.get("selections") and not faults and rng.random() < 0.5:
                op = pick_op(rng, sp, ids, True)  # every completion order of an executor restricted by root / exclude / target nodes
                if op.get("kind") == "executor":
                    col.counters["dfs_shapes_run_through_an_executor_selection"] += 1
            runs, complete = explore(col, sp, d, plain, op, faults, j.get("limit", 300))
            nshapes += 1
            ncomplete += bool(complete)
            col.counters["dfs_runs"] += runs
    col.counters["dfs_shapes"] += nshapes
    col.counters["dfs_shapes_enumerated_completely"] += ncomplete
    return col.result()


@job("replay")
def job_replay(j):
    rp = j["case"]
    sub = REGISTRY["replay:" + rp["kind"]]
    return sub(j, rp)


def _replay_sched(j, rp):
    col = Collector(max_per_mech=50)
    sp = rp["spec"]
    d, _env, plain = S.build_tawazi(sp)
    located = rp.get("located", True)
    for attempt in range(j.get("attempts", 5)):
        ch = ScriptChooser(rp.get("picks", [])) if attempt == 0 and rp.get("mode") == "ctl" else None
        case = sched.run_case(sp, op=rp["op"], args=[Sym("arg", attempt)], faults=rp.get("faults", []),
                              controlled=(rp.get("mode", "ctl") == "ctl"), chooser=ch, d=d, plain=plain,
                              fault_base=rp.get("fault_base", False))
        case["located"] = located
        eval_case(col, case, rp.get("mode", "ctl"))
    return col.result()


REGISTRY["replay:sched_case"] = _replay_sched


def _rerun_job(j, rp):
    """Exact replay: run the originating job again (same seed; check.py restores its PYTHONHASHSEED)."""
    return REGISTRY[rp["job"]["kind"]](rp["job"])


REGISTRY["replay:rerun_job"] = _rerun_job


@job("w3")
def job_w3(j):
    """Run the repository's own tests under the passive generic monitors (in a scratch copy of the tests directory)."""
    import json
    import os
    import shutil
    import subprocess
    import sys
    import tempfile

    col = Collector()
    repo = [p for p in sys.path if os.path.isdir(os.path.join(p, "tawazi"))][0]
    tests = os.path.join(repo, "tests") if os.path.isdir(os.path.join(repo, "tests")) else "/repo/tests"
    tmp = tempfile.mkdtemp(prefix="twzw3_")
    try:
        shutil.copytree(tests, os.path.join(tmp, "tests"))
        out = os.path.join(tmp, "w3.json")
        env = dict(os.environ, TWZ_W3_OUT=out)
        cmd = [sys.executable, "-m", "pytest", "-q", "-p", "no:cacheprovider", "-p", "twzmon.pytest_plugin", "-o", "addopts=", "--timeout=600",
               "-x", "--deselect", "tests/test_resource.py::test_main_thread_resource_computation_time", "tests"]
        if j.get("select"):
            cmd += ["-k", j["select"]]
        p = subprocess.run(cmd, cwd=tmp, env=env, capture_output=True, text=True, timeout=j.get("timeout", 900))  # noqa: S603
        try:
            res = json.load(open(out))
        except Exception:  # noqa: BLE001
            col.inconclusive.append("repository tests under the monitors produced no report (rc=%s): %s" % (p.returncode, (p.stdout or "")[-600:]))
            return col.result()
        col.evaluations += res["tests"]
        col.counters.update(res["stats"])
        col.counters["w3_tests"] += res["tests"]
        col.counters["w3_tests_failed"] += res["outcomes"].get("failed", 0)
        for x in res["violations"]:
            col.violation(x["prop"], "w3:" + x["mech"], dict(x["witness"], test=x["test"]), {"kind": "rerun_job", "job": dict(j)})
        if res["outcomes"].get("failed", 0):
            col.soft_inconclusive.append("%d repository tests fail under the monitors" % res["outcomes"]["failed"])
        for k in range(min(res["tests"], 400)):
            col.hashes.add("w3test%04d" % k)
        col.sample({"workload": "repository test-suite under passive generic monitors", "tests": res["tests"], "outcomes": res["outcomes"],
                    "executions_monitored": res["stats"].get("generic_executions", 0)})
    finally:
        shutil.rmtree(tmp, ignore_errors=True)
    return col.result()


@job("scale")
def job_scale(j):
    """Large DAGs (long chains, wide fans, layered grids; hundreds of nodes): every call terminates within 10N+20 scheduler
    iterations, runs every node once and respects the dependencies (spec-free monitor).  Free-running, both flavours."""
    rng = random.Random(j["seed"])
    col = Collector()
    pid = j.get("pid", "C09")
    for k in range(j.get("n_cases", 3)):
        kind = rng.choice(j.get("kinds") or ["chain", "fan", "grid", "binary", "roots", "chain_beside_sequential", "fan_below_sequential", "fan_in"])
        n = rng.randint(j.get("nmin", 200), j.get("nmax", 600))
        if k == 0 and not j.get("kinds"):
            kind, n = "chain", rng.randint(520, 700)  # deeper than half of Python's default recursion limit
        if k == 1 and j.get("deep"):
            kind, n = "chain", rng.randint(1100, 1500)  # deeper than Python's default recursion limit
        nested_chain = kind == "nested_chain"
        if nested_chain:
            kind, n = "chain", rng.randint(1100, 1300)  # ... most of it written as an INNER DAG called by the describing function
        fns = {"g%d" % q: dict(priority=rng.choice([0, 1, 2]), is_sequential=False, resource=rng.choice(["thread", "thread", "async-thread", "main-thread"]))
               for q in range(4)}
        if kind in ("chain_beside_sequential", "fan_below_sequential"):
            # one SEQUENTIAL function (call site 0) next to / above many others: it overlaps none of them, however often the scheduler
            # has to put it back, however wide the level is
            fns["gseq"] = dict(priority=(1 if kind == "chain_beside_sequential" else 10 ** 6), is_sequential=True, resource=rng.choice(["thread", "async-thread"]))
            for q in range(4):
                fns["g%d" % q]["priority"] = rng.choice([5, 6, 7])
                fns["g%d" % q]["resource"] = rng.choice(["thread", "async-thread"])
        nodes = []
        for i in range(n):
            if kind == "chain":
                deps = [i - 1] if i else []
            elif kind == "roots":
                deps = []  # one level of n independent nodes: hundreds of nodes ready at once
            elif kind == "chain_beside_sequential":
                deps = [i - 1] if i > 1 else []  # site 0 = the sequential root, sites 1.. = a chain of their own
            elif kind == "fan_below_sequential":
                deps = []  # site 0 = the sequential node (highest priority), all others independent roots of one wide level
            elif kind == "fan_in":
                # many roots and, at the end, call sites that take 33 .. 70 of them as arguments
                deps = rng.sample(range(n - 3), rng.randint(33, min(70, n - 3))) if i >= n - 3 else []
            elif kind == "fan":
                deps = [0] if i else []
            elif kind == "grid":
                w = 20
                deps = [i - w] if i >= w else []
                if i >= w and i % w:
                    deps.append(i - w - 1)
            else:
                deps = [(i - 1) // 2] if i else []
            fn_i = "gseq" if (i == 0 and "gseq" in fns) else "g%d" % rng.randrange(4)
            nodes.append({"fn": fn_i, "args": [["n", q, []] for q in deps] + ([["p", "x"]] if not deps else []), "kwargs": {}, "active": None})
        sinks = set(range(n)) - {a[1] for nd in nodes for a in nd["args"] if a[0] == "n"}
        sp = {"name": "big", "params": ["x"], "defaults": {}, "fns": fns, "nodes": nodes,
              "ret": ["tuple", [["n", i, []] for i in sorted(sinks)[:50]]], "mc": rng.randint(2 if "gseq" in fns else 1, 8), "is_async": rng.random() < 0.3}
        if nested_chain:
            for fs in fns.values():
                fs["resource"] = "thread"
            sp["is_async"] = False
            sp["nest"] = {"name": "nin", "first": 5, "last": n - 5, "mc": 1}
            kind = "nested_chain"
        rp = {"kind": "rerun_job", "job": dict(j, n_cases=k + 1), "shape": kind, "nodes": n, "mc": sp["mc"], "is_async": sp["is_async"]}
        col.evaluations += 1
        try:
            d, _env, plain = S.build_tawazi(sp)
        except BaseException as e:  # noqa: BLE001
            if isinstance(e, (KeyboardInterrupt, SystemExit)):
                raise
            col.violation(pid, "large_dag_could_not_be_built", dict(shape=kind, nodes=n, exc=repr(e)[:200]), rp)
            continue
        ids = S.node_ids(sp)
        if pid == "C07":
            cp = S.cp_spec(sp)
            table = d.graph_ids.compound_priority
            wrong = [ids[i] for i in range(n) if table.get(ids[i]) != cp[i]][:5]
            col.counters["cp_table_checks"] += 1
            if wrong:
                col.violation(pid, "cp_table_differs_from_spec(large_dag)", dict(shape=kind, nodes=n, first_wrong=wrong), rp)
        B.reset_log()
        probes.reset_counts()
        B.Settings.controlled = False
        B.Settings.step_limit = 10 * len(d.exec_nodes) + 20
        # (next to a sequential function the node bodies take a moment: an overlap must be able to show)
        B.Settings.stress_sleep = 0.002 if "gseq" in fns else 0.0
        try:
            res = probes.run_op("call", lambda: sched.call_dag(d, {"kind": "call"}, [Sym("arg", k)]))
        finally:
            B.Settings.step_limit = 0
            B.Settings.stress_sleep = 0.0
        log = B.snapshot()
        col.counters["scale_cases_%s" % kind] += 1
        col.counters["scale_nodes"] += n
        col.hashes.add(S.spec_hash({"k": kind, "n": n, "mc": sp["mc"], "a": sp["is_async"], "seed": j["seed"], "i": k}))
        col.generic(log, rp)
        if res[0] != "ok":
            col.violation(pid, "large_dag_call_raised", dict(shape=kind, nodes=n, exc=repr(res[1])[:300]), rp)
            continue
        ent = Counter(e["node"] for e in log if e["kind"] == "FENTER")
        bad = [x for x in ids if ent.get(x, 0) != 1]
        if bad:
            col.violation(pid, "returned_normally_while_selected_active_node_has_not_run", dict(shape=kind, nodes=n, not_exactly_once=bad[:10]), rp)
        ref = S.run_reference(sp, [Sym("arg", k)], plain)
        if ref[0] == "ok":
            from .sym import same, short

            if not same(ref[1].result, res[1]):
                col.violation(pid, "large_dag_returned_wrong_value", dict(shape=kind, nodes=n, got=short(res[1], 200)), rp)
        if kind == "chain" and n >= 500 and not sp.get("nest"):
            # executor selections deep inside the chain: exactly the documented closure runs (no traversal gives up half way)
            mid = rng.randint(40, 200) if n > 1050 and rng.random() < 0.6 else rng.randint(40, n - 50)  # (often more than 1000 below it)
            for kw_, exp_ in (({"target_nodes": [ids[mid]]}, set(range(mid + 1))), ({"exclude_nodes": [ids[mid]]}, set(range(mid))),
                              ({"target_nodes": [ids[n - 1]], "exclude_nodes": [ids[n - 2]]}, None)):
                B.reset_log()
                r_ = probes.run_op("executor", lambda kw_=kw_: sched.call_dag(d, dict(kind="executor", **kw_), [Sym("arg", k, "sel")]))
                ent_ = Counter(e["node"] for e in B.snapshot() if e["kind"] == "FENTER")
                col.counters["scale_selections_on_deep_chains"] += 1
                if exp_ is None:
                    if r_[0] != "exc" or not isinstance(r_[1], ValueError) or ent_:
                        col.violation(pid, "large_dag_invalid_selection_did_not_raise_ValueError", dict(nodes=n, selection=kw_, outcome=repr(r_)[:200], entered=len(ent_)), rp)
                elif r_[0] != "ok":
                    col.violation(pid, "large_dag_selection_raised", dict(nodes=n, selection=kw_, exc=repr(r_[1])[:300]), rp)
                elif {x for x, c_ in ent_.items() if c_ == 1} != {ids[i] for i in exp_} or any(c_ != 1 for c_ in ent_.values()):
                    col.violation(pid, "large_dag_selection_executed_other_nodes_than_the_closure", dict(
                        nodes=n, selection=kw_, entered=len(ent_), expected=len(exp_)), rp)
        if k == 0:
            col.sample(dict(shape=kind, nodes=n, max_concurrency=sp["mc"], is_async=sp["is_async"],
                            scheduler_iterations=max([e.get("steps", 0) for e in log if e["kind"] == "STEPS"] or [0])))
    return col.result()


@job("imbricated")
def job_imbricated(j):
    """DAG executions started from inside node functions of another DAG (also setup() called inside a setup node): every
    operation must return (bounded progress; a hang is judged by the watchdog's stack samples) with the right values."""
    from tawazi import dag, xn

    from .sym import same, short

    rng = random.Random(j["seed"])
    col = Collector()
    for k in range(j["n_cases"]):
        mc_in, mc_out = rng.randint(1, 3), rng.randint(1, 3)
        a = xn(probes.mkprobe("im_a%d" % k))
        b = xn(probes.mkprobe("im_b%d" % k))
        s_in = xn(setup=True)(probes.mkprobe("im_sin%d" % k))

        def inner_fn(x):
            m = s_in("m")
            return b(a(x), m)

        inner_fn.__name__ = inner_fn.__qualname__ = "im_inner%d" % k
        inner = dag(max_concurrency=mc_in)(inner_fn)
        calls_setup = rng.random() < 0.5

        def body_setup(tag):
            if calls_setup:
                inner.setup()  # a setup node whose body sets up another DAG
            return ("ready", tag)

        def body_run(x, m):
            return ("ran", inner(x), m)  # a node whose body runs another DAG

        body_setup.__name__ = body_setup.__qualname__ = "im_osetup%d" % k
        body_run.__name__ = body_run.__qualname__ = "im_orun%d" % k
        from tawazi import Resource

        # only pooled nodes can run another (sync) DAG: a main-thread node runs inside the scheduler's event loop, where
        # asyncio.run is not allowed (limitation of the sync flavour, not judged here)
        o_setup = xn(setup=True, resource=Resource.thread)(body_setup)
        o_run = xn(resource=Resource.thread)(body_run)
        nrun = rng.randint(1, 3)

        def outer_fn(x):
            m = o_setup("t")
            return tuple(o_run(x, m) for _ in range(nrun))

        outer_fn.__name__ = outer_fn.__qualname__ = "im_outer%d" % k
        outer = dag(max_concurrency=mc_out)(outer_fn)
        rp = {"kind": "rerun_job", "job": dict(j, n_cases=k + 1)}
        ops = rng.sample(["setup", "call", "call", "executor"], rng.randint(2, 4))
        for op in ops:
            x = Sym("arg", k, op)
            B.reset_log()
            if op == "setup":
                r = probes.run_op("setup_with_nested_setup", lambda: outer.setup())
            elif op == "call":
                r = probes.run_op("call_with_nested_calls", lambda: outer(x))
            else:
                r = probes.run_op("executor_with_nested_calls", lambda: outer.executor()(x))
            col.evaluations += 1
            col.counters["imbricated_operations"] += 1
            col.generic(B.snapshot(), rp)
            if r[0] != "ok":
                col.violation("C09", "operation_with_nested_execution_raised", dict(op=op, exc=repr(r[1])[:300], nested_setup=calls_setup), rp)
                break
            if op != "setup":
                exp_inner = None
                with probes.RefMode():
                    exp_inner = b.exec_function(a.exec_function(x), s_in.exec_function("m"))
                got = r[1]
                ok = isinstance(got, tuple) and len(got) == nrun and all(isinstance(g, tuple) and g[0] == "ran" and same(g[2], ("ready", "t")) for g in got)
                if ok:
                    # the setup probe carries an invocation number: compare the inner value modulo that number
                    ok = all(repr(g[1]).split("('inv'")[0] == repr(exp_inner).split("('inv'")[0] for g in got)
                if not ok:
                    col.violation("C01", "nested_execution_returned_wrong_value", dict(op=op, got=short(got, 300), expected_inner=short(exp_inner, 200)), rp)
        col.hashes.add(S.spec_hash({"imbricated": k % 13, "ops": ops, "mc": [mc_in, mc_out], "ns": calls_setup}))
        if k % 10 == 0:
            col.sample({"workload": "DAG executions inside node functions", "outer_ops": ops, "setup_node_calls_inner_setup": calls_setup,
                        "max_concurrency": [mc_in, mc_out]})
    return col.result()
