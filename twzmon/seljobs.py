"""C12 (target / exclude / root closure) and C13 (debug nodes) jobs."""
from __future__ import annotations

import itertools
import random
from collections import Counter

import networkx as nx

from . import bootstrap as B
from . import probes, spec as S
from .cpjobs import all_shapes
from .jobs import REGISTRY, Collector, job
from .sym import Sym, same, short


def mk_sel_spec(n, edges, rng, setup=(), debug=(), tags=None, with_param=(), mc=None, kw_edges=(), keyed_returns=False, fn_names=None):
    fns, nodes = {}, []
    fn_names = fn_names or {}
    for i in range(n):
        fname = fn_names.get(i, "f%d" % i)
        attrs = dict(priority=rng.choice([0, 0, 1, 3, -1]), is_sequential=rng.random() < 0.1,
                     resource=rng.choice(["thread", "thread", "async-thread", "main-thread"]),
                     setup=i in setup, debug=i in debug, tag=(tags or {}).get(i))
        fns.setdefault(fname, attrs)  # a function used at several call sites is declared once
        nd = {"fn": fname, "args": [], "kwargs": {}, "active": None}
        for (j, k) in edges:
            if k == i:
                if (j, k) in kw_edges:
                    nd["kwargs"]["k%d" % j] = ["n", j, []]
                else:
                    nd["args"].append(["n", j, []])
        if i in with_param:
            nd["args"].append(["p", "x"])
        nodes.append(nd)
    ret = [["n", i, []] for i in range(n)]
    if keyed_returns:
        # some functions return a 2-tuple; the DAG returns one element of it (a key path into a possibly unselected node)
        for i in range(n):
            if rng.random() < 0.3 and not any(k == i for (_j, k) in []) and i not in setup:
                users = [m for m in nodes if any(a[0] == "n" and a[1] == i for a in list(m["args"]) + list(m["kwargs"].values()))]
                if not users and sum(1 for m in nodes if m["fn"] == nodes[i]["fn"]) == 1:
                    fns[nodes[i]["fn"]]["shape"] = ["tuple", 2]
                    ret[i] = ["n", i, [rng.randrange(2)]]
    return {"name": "prog", "params": ["x"], "defaults": {"x": 7}, "fns": fns, "nodes": nodes,
            "ret": ["tuple", ret], "mc": mc or rng.randint(1, 3), "is_async": False}


def alias_of(rng, d, spec, ids, i, tags, form=None, env=None):
    """An alias for call site i in one of the accepted forms; returns (alias, set of sites it denotes)."""
    forms = ["id", "node"]
    t = (tags or {}).get(i)
    if t is not None:
        forms.append("tag")
    if env is not None and "<<" not in ids[i] and "." not in ids[i]:
        forms.append("fn")  # the decorated function itself: it denotes its FIRST usage in the DAG
    form = form or rng.choice(forms)
    if form == "fn":
        return env["c%d" % i], resolve_alias(ids[i], ids, tags, by_node=True)
    if form == "node":
        return d.get_node_by_id(ids[i]), resolve_alias(ids[i], ids, tags, by_node=True)
    if form == "tag":
        return t, resolve_alias(t, ids, tags)
    return ids[i], resolve_alias(ids[i], ids, tags)


def resolve_alias(s, ids, tags, by_node=False):
    """Documented resolution: a string is first a tag (all call sites carrying it), otherwise a node id."""
    if by_node:
        return {ids.index(s)}
    tagged = {i for i, t in (tags or {}).items() if t == s or (isinstance(t, (list, tuple)) and s in t)}
    if tagged:
        return tagged
    if s in ids:
        return {ids.index(s)}
    return None


def expected_closure(spec, R, X, T):
    """None when the triple is invalid (ValueError expected)."""
    g = S.site_graph(spec)
    roots = {i for i in g.nodes if g.in_degree(i) == 0 and not spec["nodes"][i]["args"] and not spec["nodes"][i]["kwargs"]}
    if R is not None and not set(R) <= roots:
        return None
    return S.closure(spec, R, X, T)


def run_executor(d, kw, args):
    from tawazi import AsyncDAG
    import asyncio

    def thunk():
        ex = d.executor(**S.spell_selections(kw))
        if isinstance(d, AsyncDAG):
            async def main():
                return await ex(*args)

            return asyncio.run(main())
        return ex(*args)

    B.reset_log()
    probes.reset_counts()
    res = probes.run_op("executor", thunk)
    return res, B.snapshot()


def check_selection(col, pid, spec, d, plain, ids, tags, R, X, T, kw, rp, args, env_values=None, debug=()):
    exp = expected_closure(spec, R, X, T)
    res, log = run_executor(d, kw, args)
    entered = [e["node"] for e in log if e["kind"] == "FENTER"]
    col.evaluations += 1
    col.counters["c12_executor_runs"] += 1
    col.generic(log, rp)
    if exp is None:
        col.counters["c12_invalid_triples"] += 1
        if res[0] == "ok" or not isinstance(res[1], ValueError):
            col.violation(pid, "invalid_selection_did_not_raise_ValueError", dict(
                selection=S.jsonable(kw), outcome=short(res), source=S.render(spec)), rp)
        if entered:
            col.violation(pid, "nodes_ran_although_selection_invalid", dict(selection=S.jsonable(kw), entered=entered), rp)
        return None
    col.counters["c12_valid_triples"] += 1
    if res[0] != "ok":
        col.violation(pid, "valid_selection_raised", dict(selection=S.jsonable(kw), exc=repr(res[1])[:300], closure=sorted(exp),
                                                         source=S.render(spec)), rp)
        return None
    pre = set(env_values or ())
    exp_run = {ids[i] for i in exp if i not in pre and i not in debug}
    got_run = set(entered)
    if got_run != exp_run or len(entered) != len(got_run):
        col.violation(pid, "executed_set_differs_from_documented_closure", dict(
            selection=S.jsonable(kw), executed=sorted(entered), closure=sorted(exp_run), source=S.render(spec)), rp)
    ref = S.run_reference(spec, args, plain, enabled=exp - set(debug), env_values=env_values)
    if ref[0] == "ok":
        col.counters["c12_value_checks"] += 1
        if not same(ref[1].result, res[1]):
            col.violation(pid, "returned_values_not_real_values_or_None", dict(
                selection=S.jsonable(kw), expected=short(ref[1].result, 400), got=short(res[1], 400), source=S.render(spec)), rp)
    if env_values is not None:
        # setup results stay on the instance: a later selection on the SAME object finds them "already computed"
        for e in log:
            if e["kind"] == "FEXIT" and e.get("ok") and e["node"] in ids:
                i = ids.index(e["node"])
                if spec["fns"][spec["nodes"][i]["fn"]].get("setup"):
                    env_values.setdefault(i, e["value"])
    return exp


def cached_selection(col, pid, spec, d, plain, ids, kw, rp, rng):
    """The same (valid) selection on an executor started from a cache file that holds the WHOLE DAG: nothing runs, and every
    value is a real one - cached results are "already-computed nodes", inside and outside the selected sub-graph."""
    import os
    import tempfile

    args = [Sym("arg", rng.randrange(1 << 30))]
    fd, path = tempfile.mkstemp(prefix="twzsel_", suffix=".pkl")
    os.close(fd)
    try:
        r0, _lg = run_executor(d, {"cache_in": path}, args)
        if r0[0] != "ok":
            return
        res, log = run_executor(d, dict(kw, from_cache=path), args)
        entered = [e["node"] for e in log if e["kind"] == "FENTER"]
        col.evaluations += 1
        col.counters["c12_selections_started_from_a_full_cache_file"] += 1
        if res[0] != "ok":
            col.violation(pid, "valid_selection_raised", dict(selection=S.jsonable(kw), from_cache="file with every result", exc=repr(res[1])[:300], source=S.render(spec)), rp)
        elif entered:
            col.violation(pid, "executed_set_differs_from_documented_closure", dict(
                selection=S.jsonable(kw), from_cache="file with every result", executed=sorted(entered), closure=[], source=S.render(spec)), rp)
        elif not same(r0[1], res[1]):
            col.violation(pid, "returned_values_not_real_values_or_None", dict(
                selection=S.jsonable(kw), from_cache="file with every result", expected=short(r0[1], 400), got=short(res[1], 400), source=S.render(spec)), rp)
    finally:
        try:
            os.unlink(path)
        except OSError:
            pass


def triples_for(spec, rng, exhaustive, limit=None):
    g = S.site_graph(spec)
    n = len(spec["nodes"])
    roots = [i for i in range(n) if g.in_degree(i) == 0 and not spec["nodes"][i]["args"] and not spec["nodes"][i]["kwargs"]]
    out = []
    if n > 12:
        # wide shapes: the triples are drawn directly (selections that name MANY nodes - more than 16 ids - among them)
        for _ in range(limit or 30):
            R = None if rng.random() < 0.4 or not roots else rng.sample(roots, rng.randint(1, len(roots)))
            part = sorted(S.closure(spec, R, None, None))
            X = None if rng.random() < 0.4 or not part else rng.sample(part, rng.randint(1, min(len(part), rng.choice([2, 20]))))
            T = None if rng.random() < 0.4 else rng.sample(range(n), rng.randint(0, min(n, rng.choice([3, 25]))))
            out.append((R, X, T))
        return out
    # an empty list is a legal (empty) subset and is different from "not given" (None)
    r_opts = [None, []] + [list(c) for k in range(1, len(roots) + 1) for c in itertools.combinations(roots, k)]
    for R in r_opts:
        part = S.closure(spec, R, None, None)
        x_opts = [None, []] + [list(c) for k in (1, 2) for c in itertools.combinations(sorted(part), k)]
        for X in x_opts:
            t_opts = [None] + [list(c) for k in range(0, n + 1) for c in itertools.combinations(range(n), k)]
            for T in t_opts:
                out.append((R, X, T))
    if not exhaustive and limit and len(out) > limit:
        out = rng.sample(out, limit)
    return out


def run_shape(col, pid, rng, n, edges, exhaustive, limit, with_setup=False, with_tags=True, bulk_tag=0):
    tags = {}
    fn_names = {i: "f%d" % i for i in range(n)}
    if n >= 3 and rng.random() < 0.35:
        # functions used at several call sites (ids f, f<<1>>, f<<2>> ... are documented aliases) whose NAMES are prefixes of
        # each other (n1, n11, n111 like fetch / fetch_all): the numbering of one must not be disturbed by the other
        chain = rng.random() < 0.6
        fn_names = {i: ("n" + "1" * (i + 1)) if chain else "f%d" % i for i in range(n)}
        for i in range(1, n):
            if rng.random() < 0.45:
                fn_names[i] = fn_names[rng.randrange(i)]
        col.counters["c12_shapes_with_reused_functions"] += 1
    uses = Counter(fn_names.values())
    unique = {i for i in range(n) if uses[fn_names[i]] == 1}
    _k = {}
    pred_ids = []
    for i in range(n):
        c = _k.get(fn_names[i], 0)
        _k[fn_names[i]] = c + 1
        pred_ids.append(fn_names[i] if c == 0 else "%s<<%d>>" % (fn_names[i], c))
    if with_tags:
        for i in sorted(unique):
            r = rng.random()
            if r < 0.25:
                # possibly shared; some tags are substrings of other tags ("T1" in "T10", "aT1")
                tags[i] = rng.choice(["T0", "T1", "T1", "T10", "aT1"])
            elif r < 0.35 and n > 1:
                tags[i] = pred_ids[rng.choice([j for j in range(n) if j != i])]  # a tag equal to ANOTHER node's id
            elif r < 0.42 and n > 1:
                tags[i] = "pre_%s_x" % pred_ids[rng.choice([j for j in range(n) if j != i])]  # a tag that CONTAINS another node's id
    g0 = nx.DiGraph()
    g0.add_nodes_from(range(n))
    g0.add_edges_from(edges)
    if bulk_tag:
        # one tag shared by MANY nodes (more than 16): a selection naming it names them all
        for i in sorted(unique)[:bulk_tag]:
            tags[i] = "bulk"
        col.counters["c12_shapes_with_a_tag_shared_by_more_than_16_nodes"] += 1
    setup = set()
    if with_setup:
        # a setup node may only depend on setup nodes: choose an ancestor-closed set
        for i in range(n):
            if i in unique and all(j in setup for j in g0.predecessors(i)) and rng.random() < 0.5:
                setup.add(i)
    kw_edges = {e for e in edges if rng.random() < 0.3}
    with_param = {i for i in range(n) if i not in setup and g0.in_degree(i) > 0 and rng.random() < 0.3}
    # some sinks are debug nodes (RUN_DEBUG_NODES stays off for such shapes): they never run and yield None however they are
    # selected; a target naming one still selects its production ancestors ("debug rules aside")
    debug_sinks = set()
    if not exhaustive and rng.random() < 0.3:
        debug_sinks = {i for i in range(n) if i in unique and i not in setup and g0.out_degree(i) == 0 and g0.in_degree(i) > 0 and rng.random() < 0.6}
        if debug_sinks:
            col.counters["c12_shapes_with_debug_sinks_flag_off"] += 1
    spec = mk_sel_spec(n, edges, rng, setup=setup, tags=tags, with_param=with_param, kw_edges=kw_edges, keyed_returns=rng.random() < 0.5,
                       fn_names=fn_names, debug=debug_sinks)
    spec["is_async"] = rng.random() < 0.25
    plain = {name: probes.mkprobe(name, shape=tuple(fs["shape"]) if fs.get("shape") else None) for name, fs in spec["fns"].items()}
    ids = S.node_ids(spec)
    rp = {"kind": "sel_case", "n": n, "edges": edges, "spec": spec, "source": S.render(spec)}
    d0, _e, _p = S.build_tawazi(spec, plain=plain)
    if set(ids) - set(d0.exec_nodes):
        col.violation(pid, "node_ids_of_reused_functions_not_as_documented", dict(
            expected=ids, dag_has=sorted(k for k in d0.exec_nodes if ">" not in k.replace("<<", "").replace(">>", ""))[:20], source=S.render(spec)), rp)
        return
    d = None
    trs = triples_for(spec, rng, exhaustive, limit)
    env_values = {}
    from tawazi.config import cfg as _tcfg

    # no debug node in these shapes: RUN_DEBUG_NODES on must not change which closure runs ("debug rules aside")
    debug_flag_on = rng.random() < 0.25 and not debug_sinks
    old_flag = _tcfg.RUN_DEBUG_NODES
    if debug_flag_on:
        col.counters["c12_shapes_run_with_RUN_DEBUG_NODES_on"] += 1
    for (R, X, T) in trs:
        if d is None or (setup and rng.random() < 0.5):
            # (half of the time the previous object is kept: its setup results are "already computed" for the next selection)
            d, env_d, _p = S.build_tawazi(spec, plain=plain)
            env_values = {}
        kw = {}
        denoted_ok = True
        for name, sites in (("root_nodes", R), ("exclude_nodes", X), ("target_nodes", T)):
            if sites is None:
                continue
            al = []
            for i in sites:
                a, den = alias_of(rng, d, spec, ids, i, tags, env=env_d)
                al.append(a)
                if den != {i}:
                    denoted_ok = False  # the alias denotes other / more call sites: recompute the triple it really means
            # the parameters are Sequence[Alias]: a tuple of aliases is as good as a list
            kw[name] = tuple(al) if rng.random() < 0.3 else al
        if not denoted_ok:
            def expand(sites, al):
                if sites is None:
                    return None
                out = []
                for a in al:
                    den = resolve_alias(a, ids, tags) if isinstance(a, str) else {ids.index(a.id)}
                    out.extend(sorted(den))
                return out

            R2, X2, T2 = expand(R, kw.get("root_nodes")), expand(X, kw.get("exclude_nodes")), expand(T, kw.get("target_nodes"))
            part = S.closure(spec, R2, None, None) if expected_closure(spec, R2, None, None) is not None else None
            if X2 is not None and (part is None or not set(X2) <= part):
                col.counters["skipped_exclude_outside_root_part"] += 1
                continue
            R, X, T = R2, X2, T2
            col.counters["c12_alias_denotes_other_sites"] += 1
        args = [Sym("arg", rng.randrange(1 << 30))] if rng.random() < 0.7 else []
        rp2 = dict(rp, triple=[R, X, T], kw=S.jsonable(kw), run_debug_nodes=debug_flag_on)
        _tcfg.RUN_DEBUG_NODES = debug_flag_on
        try:
            exp = check_selection(col, pid, spec, d, plain, ids, tags, R, X, T, kw, rp2, args, env_values=env_values, debug=debug_sinks)
            if exp is not None and not setup and not debug_sinks and rng.random() < 0.12:
                cached_selection(col, pid, spec, d, plain, ids, kw, rp2, rng)
        finally:
            _tcfg.RUN_DEBUG_NODES = old_flag
        if exp is not None and n >= 2:
            col.hashes.add(S.spec_hash({"e": sorted(edges), "n": n, "s": sorted(setup), "t": [R, X, T]}))
        if col.evaluations % 500 == 2:
            col.sample(dict(source=S.render(spec), tags=tags, setup=sorted(setup), selection=S.jsonable(kw), closure=sorted(exp) if exp is not None else "invalid -> ValueError"))
    # invalid alias / non-root root
    d, _e, _p = S.build_tawazi(spec, plain=plain)
    res, log = run_executor(d, {"target_nodes": ["no_such_node"]}, [])
    col.counters["c12_unknown_alias_cases"] += 1
    col.evaluations += 1
    if res[0] == "ok" or not isinstance(res[1], ValueError) or any(e["kind"] == "FENTER" for e in log):
        col.violation(pid, "unknown_alias_did_not_raise_ValueError", dict(outcome=short(res), source=S.render(spec)), rp)
    nonroots = [i for i in range(n) if g0.in_degree(i) > 0]
    if nonroots:
        i = rng.choice(nonroots)
        if resolve_alias(ids[i], ids, tags) == {i}:
            res, log = run_executor(d, {"root_nodes": [ids[i]]}, [])
            col.counters["c12_non_root_cases"] += 1
            col.evaluations += 1
            if res[0] == "ok" or not isinstance(res[1], ValueError) or any(e["kind"] == "FENTER" for e in log):
                col.violation(pid, "non_root_in_root_nodes_did_not_raise_ValueError", dict(outcome=short(res), root=ids[i], source=S.render(spec)), rp)


@job("sel")
def job_sel(j):
    rng = random.Random(j["seed"])
    col = Collector()
    pid = j.get("pid", "C12")
    if j.get("only"):
        from .jobs import Filtered

        real = col
        col = Filtered(col, j["only"])
    for n in j.get("exhaustive_n", []):
        shapes = list(all_shapes(n))
        for k, edges in enumerate(shapes):
            if k % j.get("nparts", 1) != j.get("part", 0):
                continue
            run_shape(col, pid, rng, n, edges, True, None, with_setup=(rng.random() < 0.3))
            col.counters["shapes_enumerated_n%d" % n] += 1
    for _ in range(j.get("random_shapes", 0)):
        n = rng.randint(j.get("nmin", 4), j.get("nmax", 8))
        edges = [(a, b) for b in range(n) for a in range(b) if rng.random() < 0.3]
        run_shape(col, pid, rng, n, edges, False, j.get("triples_per_shape", 30), with_setup=(rng.random() < 0.4))
        col.counters["random_shapes"] += 1
    for _ in range(j.get("wide_shapes", 0)):
        # m independent branches src_i -> use_i (plus a few cross edges): 36..52 nodes, a tag shared by more than 16 of them
        m = rng.randint(18, 26)
        n = 2 * m
        edges = [(i, m + i) for i in range(m)] + [(rng.randrange(m), m + rng.randrange(m)) for _q in range(rng.randint(0, 4))]
        edges = sorted(set(edges))
        run_shape(col, pid, rng, n, edges, False, j.get("triples_per_shape", 30), bulk_tag=rng.randint(17, m))
        col.counters["wide_shapes"] += 1
    return col.result()


def _replay_sel(j, rp):
    col = Collector(max_per_mech=20)
    rng = random.Random(0)
    spec = rp["spec"]
    ids = S.node_ids(spec)
    plain = {name: probes.mkprobe(name, shape=tuple(fs["shape"]) if fs.get("shape") else None) for name, fs in spec["fns"].items()}
    tags = {i: spec["fns"][nd["fn"]].get("tag") for i, nd in enumerate(spec["nodes"]) if spec["fns"][nd["fn"]].get("tag") is not None}
    trs = [tuple(rp["triple"])] if rp.get("triple") else triples_for(spec, rng, False, 200)
    for (R, X, T) in trs:
        d, _e, _p = S.build_tawazi(spec, plain=plain)
        kw = {}
        for name, sites in (("root_nodes", R), ("exclude_nodes", X), ("target_nodes", T)):
            if sites is not None:
                kw[name] = [d.get_node_by_id(ids[i]) for i in sites]
        from tawazi.config import cfg as _tcfg

        old_flag = _tcfg.RUN_DEBUG_NODES
        _tcfg.RUN_DEBUG_NODES = bool(rp.get("run_debug_nodes"))
        try:
            # (a history on one object is replayed as: the same selection twice on one object)
            env_values = {}
            check_selection(col, j.get("pid", "C12"), spec, d, plain, ids, tags, R, X, T, kw, rp, [Sym("arg", 1)], env_values=env_values)
            check_selection(col, j.get("pid", "C12"), spec, d, plain, ids, tags, R, X, T, kw, rp, [Sym("arg", 2)], env_values=env_values)
        finally:
            _tcfg.RUN_DEBUG_NODES = old_flag
    return col.result()


REGISTRY["replay:sel_case"] = _replay_sel


# ------------------------------------------------------------------------------------------------ C13 debug nodes
def run_any(d, op, kw, args):
    from tawazi import AsyncDAG
    import asyncio

    is_async = isinstance(d, AsyncDAG)

    def thunk():
        if op == "call":
            f = d
        elif op == "executor":
            f = d.executor(**kw)
        else:
            if is_async:
                return asyncio.run(d.setup(**kw))
            return d.setup(**kw)
        if is_async:
            async def main():
                return await f(*args)

            return asyncio.run(main())
        return f(*args)

    B.reset_log()
    probes.reset_counts()
    res = probes.run_op(op, thunk)
    return res, B.snapshot()


class LegalBuildRejected(Exception):
    pass


def build_legal(col, pid, spec, plain, rp):
    """Build a DAG the generator knows to be legal; a rejection is a verdict, not a harness crash."""
    try:
        return S.build_tawazi(spec, plain=plain)
    except BaseException as e:  # noqa: BLE001
        col.violation(pid, "legal_dag_rejected_when_built", dict(exc=type(e).__name__, msg=str(e)[:300], source=rp.get("source")), rp)
        raise LegalBuildRejected() from e


def dbg_shape(col, pid, rng, n, edges):
    from tawazi.config import cfg

    g0 = nx.DiGraph()
    g0.add_nodes_from(range(n))
    g0.add_edges_from(edges)
    debug = set()
    for i in range(n):
        # a non-debug node may not depend on a debug node: debug set is descendant-closed
        if any(j in debug for j in g0.predecessors(i)) or rng.random() < 0.3:
            debug.add(i)
    setup = set()
    for i in range(n):
        if i not in debug and all(j in setup for j in g0.predecessors(i)) and rng.random() < 0.2:
            setup.add(i)
    fn_names = None
    if rng.random() < 0.3:
        # names that are prefixes of each other (log / log1p / log1p_scaled): in one half of the cases the LATER sites - where the
        # debug nodes are - carry the shorter names
        rev = rng.random() < 0.5
        fn_names = {i: "n" + "1" * ((n - i) if rev else (i + 1)) for i in range(n)}
        col.counters["c13_shapes_with_prefix_named_functions"] += 1
    spec = mk_sel_spec(n, edges, rng, setup=setup, debug=debug, fn_names=fn_names)
    spec["is_async"] = rng.random() < 0.25
    for i in range(n):
        if i not in setup and rng.random() < (0.3 if i in debug else 0.1):
            # a constant OBJECT among the inputs (a logger, a connection): identity-sensitive, cannot be copied or pickled
            spec["nodes"][i]["args"].append(["g", rng.choice(["OPQ_A", "OPQ_B"])])
    if n >= 3 and rng.random() < 0.4:
        # a block of the nodes (debug nodes included) lives in an inner DAG: selections then name prefixed ids, and a debug node
        # inside the inner DAG may be fed by one of its parameters
        a0 = rng.randrange(n)
        b0 = min(n - 1, a0 + rng.randint(0, 2))
        g1 = S.site_graph(spec)
        multi1 = [(q, i) for i in sorted(debug) for q in g1.predecessors(i) if g1.in_degree(i) >= 2 and q not in debug and 0 < i - q <= 3]
        if multi1 and rng.random() < 0.6:
            a0, b0 = rng.choice(multi1)  # the block holds a multi-parent debug node together with one of its parents
        # (a debug result cannot be handed to an inner DAG: its argument stub is a non-debug node - tawazi rejects that, rightly)
        ext_ok = all(j not in debug for i in range(a0, b0 + 1) for (j, _k) in S.deps_of(spec["nodes"][i]) if j < a0)
        if ext_ok and S.nestable(spec, a0, b0, allow_debug=True):
            spec["nest"] = {"name": "nin", "first": a0, "last": b0, "mc": 1}
            col.counters["c13_shapes_with_a_block_written_as_inner_dag"] += 1
    plain = {name: probes.mkprobe(name) for name in spec["fns"]}
    ids = S.node_ids(spec)
    rp = {"kind": "dbg_case", "n": n, "edges": edges, "spec": spec, "source": S.render(spec), "debug": sorted(debug)}
    g = S.site_graph(spec)
    roots = [i for i in range(n) if g.in_degree(i) == 0 and not spec["nodes"][i]["args"] and not spec["nodes"][i]["kwargs"]]
    ops = [("call", {}, None)]
    for _ in range(5):
        R = rng.sample(roots, rng.randint(1, len(roots))) if roots and rng.random() < 0.3 else None
        part = S.closure(spec, R, None, None)
        X = [rng.choice(sorted(part))] if part and rng.random() < 0.3 else None
        rest = S.closure(spec, R, X, None)
        T = rng.sample(sorted(rest), rng.randint(0, min(3, len(rest)))) if rest and rng.random() < 0.7 else None
        kw = {}
        if R is not None:
            kw["root_nodes"] = [ids[i] for i in R]
        if X is not None:
            kw["exclude_nodes"] = [ids[i] for i in X]
        if T is not None:
            kw["target_nodes"] = [ids[i] for i in T]
        ops.append(("executor", kw, (R, X, T)))
    # aimed selections: ONE parent of a debug node that has several parents (the others stay unselected): the debug node may
    # only be pulled in when all its inputs are there
    multi = [i for i in sorted(debug) if g.in_degree(i) >= 2]
    for i in rng.sample(multi, min(2, len(multi))):
        p_ = rng.choice(sorted(g.predecessors(i)))
        if p_ not in debug:
            ops.append(("executor", {"target_nodes": [ids[p_]]}, (None, None, [p_])))
            col.counters["c13_selections_of_one_parent_of_a_multi_parent_debug_node"] += 1
    ops.append(("setup", {}, None))
    if rng.random() < 0.5:
        t = rng.randrange(n)
        ops.append(("setup", {"target_nodes": [ids[t]]}, None))
    if rng.random() < 0.6:
        # the cache-filling executor mode is an execution mode too: cache_deps_of naming a debug or a production node
        pool_ = sorted(debug) if debug and rng.random() < 0.7 else list(range(n))
        ops.append(("executor", {"cache_deps_of": [ids[rng.choice(pool_)]]}, None))
        col.counters["c13_cache_deps_of_operations"] += 1
    old = cfg.RUN_DEBUG_NODES
    try:
        for op, kw, triple in ops:
            outs = {}
            reconf = None
            if rng.random() < 0.35:
                # a configuration reload that names some nodes (debug ones included) only to change their priority:
                # what is a debug node stays a debug node
                uses_ = Counter(nd["fn"] for nd in spec["nodes"])
                named = [i for i in range(n) if uses_[spec["nodes"][i]["fn"]] == 1 and rng.random() < 0.5]
                if named:
                    reconf = {"nodes": {ids[i]: {"priority": rng.randint(0, 4)} for i in named}}
                    col.counters["c13_runs_after_config_reload"] += 1
            copied_ = rng.random() < 0.35 and not any(a[0] == "g" for nd_ in spec["nodes"] for a in nd_["args"])  # (constant objects cannot be copied)
            if copied_:
                col.counters["c13_runs_on_a_deep_copy"] += 1
            for flag in (False, True):
                cfg.RUN_DEBUG_NODES = flag
                d, _e, _p = build_legal(col, pid, spec, plain, rp)
                if copied_:
                    # the object that is run is a deep copy of the DAG (the same rules apply to it)
                    import copy as _copy

                    d = _copy.deepcopy(d)
                if reconf:
                    d.config_from_dict(reconf)
                args = [Sym("arg", 5)]
                res, log = run_any(d, op, kw, args if op != "setup" else [])
                col.evaluations += 1
                col.counters["c13_runs_flag_%s" % ("on" if flag else "off")] += 1
                ent = {}
                for e in log:
                    if e["kind"] == "FENTER":
                        ent.setdefault(e["node"], []).append((e["args"], e["kwargs"]))
                outs[flag] = (res, ent)
                rp2 = dict(rp, op=op, kw=S.jsonable(kw), flag=flag)
                col.generic(log, rp2)
                if res[0] != "ok":
                    col.violation(pid, "operation_raised(flag_%s)" % ("on" if flag else "off"), dict(op=op, selection=S.jsonable(kw), exc=repr(res[1])[:300], source=S.render(spec), debug=[ids[i] for i in sorted(debug)]), rp2)
                    continue
                dbg_run = [x for x in ent if x in ids and ids.index(x) in debug]
                if not flag:
                    col.counters["c13_flag_off_checks"] += 1
                    if dbg_run:
                        col.violation(pid, "debug_node_ran_with_flag_off(%s)" % op, dict(op=op, selection=S.jsonable(kw), ran=dbg_run, source=S.render(spec), debug=[ids[i] for i in sorted(debug)]), rp2)
                else:
                    if op == "call":
                        col.counters["c13_whole_call_flag_on"] += 1
                        missing = [ids[i] for i in debug if len(ent.get(ids[i], [])) != 1]
                        if missing:
                            col.violation(pid, "whole_dag_call_did_not_run_every_debug_node_once", dict(missing_or_repeated=missing, source=S.render(spec)), rp2)
                    if op == "setup" and dbg_run:
                        col.violation(pid, "debug_node_ran_in_setup", dict(ran=dbg_run, selection=S.jsonable(kw), source=S.render(spec)), rp2)
                    if op == "executor" and triple is not None:
                        clos = S.closure(spec, *triple)
                        if clos is not None:
                            for x in dbg_run:
                                i = ids.index(x)
                                if i in clos:
                                    continue
                                col.counters["c13_pulled_in_debug_nodes"] += 1
                                # pulled in by the debug rule: every dependency must have executed (or be precomputed)
                                for j, _k in S.deps_of(spec["nodes"][i]):
                                    if ids[j] not in ent:
                                        col.violation(pid, "pulled_in_debug_node_misses_an_input", dict(
                                            node=x, missing_dependency=ids[j], selection=S.jsonable(kw), source=S.render(spec),
                                            debug=[ids[q] for q in sorted(debug)]), rp2)
                                        break
            a, b = outs[False], outs[True]
            if a[0][0] == "ok" and b[0][0] == "ok":
                col.counters["c13_on_off_comparisons"] += 1
                nd_a = {x: v for x, v in a[1].items() if x in ids and ids.index(x) not in debug}
                nd_b = {x: v for x, v in b[1].items() if x in ids and ids.index(x) not in debug}
                if set(nd_a) != set(nd_b):
                    col.violation(pid, "non_debug_executed_set_depends_on_flag", dict(op=op, selection=S.jsonable(kw), off=sorted(nd_a), on=sorted(nd_b), source=S.render(spec), debug=[ids[i] for i in sorted(debug)]), rp)
                else:
                    for x in nd_a:
                        if not (same(tuple(nd_a[x][0][0]), tuple(nd_b[x][0][0])) and same(nd_a[x][0][1], nd_b[x][0][1])):
                            col.violation(pid, "non_debug_inputs_depend_on_flag", dict(node=x, op=op, selection=S.jsonable(kw)), rp)
                            break
                if op != "setup":
                    ra, rb = a[0][1], b[0][1]
                    if isinstance(ra, tuple) and isinstance(rb, tuple):
                        for i in range(n):
                            if i not in debug and not same(ra[i], rb[i]):
                                col.violation(pid, "non_debug_value_depends_on_flag", dict(node=ids[i], off=short(ra[i]), on=short(rb[i]), op=op, selection=S.jsonable(kw), source=S.render(spec)), rp)
                                break
            if n >= 2 and debug:
                col.hashes.add(S.spec_hash({"e": sorted(edges), "d": sorted(debug), "op": op, "kw": S.jsonable(kw)}))
        if col.evaluations % 300 < 30:
            col.sample(dict(source=S.render(spec), debug=[ids[i] for i in sorted(debug)], setup=[ids[i] for i in sorted(setup)],
                            ops=[(o, S.jsonable(k)) for o, k, _t in ops][:4]))
        # a debug node that FAILS: nothing that needs its output may run with the input missing (flag on)
        chains = [(j, k) for (j, k) in edges if j in debug and k in debug]
        if chains:
            j, k = rng.choice(chains)
            cfg.RUN_DEBUG_NODES = True
            d, _e, _p = build_legal(col, pid, spec, plain, rp)
            probes.State.faults = {ids[j]}
            try:
                res, log = run_any(d, "call", {}, [Sym("arg", 6)])
            finally:
                probes.State.faults = set()
            col.evaluations += 1
            col.counters["c13_failing_debug_node_cases"] += 1
            ent = [e["node"] for e in log if e["kind"] == "FENTER"]
            # judged at the function boundary (the probe raised), not at ExecNode.execute (which an edit may make swallow it)
            failed = any(e["kind"] == "FEXIT" and not e["ok"] and e["node"] == ids[j] for e in log)
            if failed:
                desc = nx.descendants(S.site_graph(spec), j)
                ran = [ids[q] for q in desc if ids[q] in ent]
                if ran:
                    col.violation(pid, "debug_node_ran_although_the_debug_node_it_depends_on_failed", dict(
                        failed=ids[j], ran=ran, outcome=res[0], source=S.render(spec), debug=[ids[i] for i in sorted(debug)]), rp)
            col.generic(log, rp)
    finally:
        cfg.RUN_DEBUG_NODES = old
    # illegal DAG: a non-debug node depending on a debug node must be rejected at build time
    if n >= 2 and edges:
        j, k = rng.choice(edges)
        bad = mk_sel_spec(n, edges, rng, debug={j})
        how = rng.choice(["positional", "keyword", "activation_flag", "argument_of_a_nested_dag"])
        ndk = bad["nodes"][k]
        if how == "argument_of_a_nested_dag":
            # the consumer lives in an inner DAG and the debug result is handed to that DAG as an argument
            if S.nestable(bad, k, k):
                bad["nest"] = {"name": "nin", "first": k, "last": k, "mc": 1}
            else:
                how = "positional"
        if how != "positional":
            ndk["args"] = [a for a in ndk["args"] if not (a[0] == "n" and a[1] == j)]
            ndk["kwargs"] = {kk: a for kk, a in ndk["kwargs"].items() if not (a[0] == "n" and a[1] == j)}
            if how == "keyword":
                ndk["kwargs"]["kdbg"] = ["n", j, []]
            else:
                ndk["active"] = ["n", j, []]
        col.counters["c13_illegal_build_via_%s" % how] += 1
        if not bad["fns"]["f%d" % k]["debug"]:
            col.counters["c13_illegal_build_cases"] += 1
            col.evaluations += 1
            try:
                S.build_tawazi(bad)
                col.violation(pid, "non_debug_depending_on_debug_was_not_rejected(%s)" % how, dict(source=S.render(bad), debug=["f%d" % j]), rp)
            except BaseException as e:  # noqa: BLE001
                col.counters["c13_illegal_build_rejected"] += 1
                if isinstance(e, (KeyboardInterrupt, SystemExit)):
                    raise


def dbg_nested(col, pid, rng, k):
    """Debug nodes inside a DAG that is nested in another DAG follow the flag's value at CALL time, like any other."""
    from tawazi import dag, xn
    from tawazi.config import cfg

    old = cfg.RUN_DEBUG_NODES
    rp = {"kind": "dbg_nested", "k": k}
    try:
        build_flag = rng.random() < 0.3
        cfg.RUN_DEBUG_NODES = build_flag
        f_ = xn(probes.mkprobe("dn_f%d" % k))
        g_ = xn(probes.mkprobe("dn_g%d" % k))
        di = xn(debug=True)(probes.mkprobe("dn_dbg_inner%d" % k))
        do_ = xn(debug=True)(probes.mkprobe("dn_dbg_outer%d" % k))

        def inner_fn(x):
            a = f_(x)
            di(a)
            return a

        inner_fn.__name__ = inner_fn.__qualname__ = "dn_inner%d" % k
        inner = dag(inner_fn)

        # the nested call may carry an activation flag: a deactivated inner DAG runs none of its nodes - its debug nodes included
        act = rng.choice([None, None, True, 0, ""])

        if act is None:
            def outer_fn(x):
                r = inner(x)
                do_(r)
                return g_(r)
        else:
            def outer_fn(x, on=act):
                r = inner(x, twz_active=on)
                do_(r)
                return g_(r)

        outer_fn.__name__ = outer_fn.__qualname__ = "dn_outer%d" % k
        outer = dag(is_async=rng.random() < 0.3)(outer_fn)
        for flag in rng.sample([False, True, True, False], 3):
            cfg.RUN_DEBUG_NODES = flag
            op = rng.choice(["call", "executor"])
            res, log = run_any(outer, op, {}, [Sym("arg", k, flag)])
            col.evaluations += 1
            col.counters["c13_nested_debug_runs"] += 1
            cnt = {nm: sum(1 for e in log if e["kind"] == "FENTER" and e["fn"] == nm) for nm in ("dn_dbg_inner%d" % k, "dn_dbg_outer%d" % k)}
            exp = 1 if flag else 0
            if act is not None and not act:
                col.counters["c13_nested_debug_runs_inner_dag_deactivated"] += 1
                ran_inner = sum(1 for e in log if e["kind"] == "FENTER" and e["fn"] in ("dn_f%d" % k, "dn_dbg_inner%d" % k))
                if res[0] == "ok" and ran_inner:
                    col.violation(pid, "deactivated_nested_dag_ran_its_debug_or_production_nodes", dict(
                        run_debug_nodes=flag, op=op, nested_call_flag=repr(act), entered=cnt), rp)
                cnt.pop("dn_dbg_inner%d" % k)
            if res[0] != "ok":
                col.violation(pid, "operation_raised(flag_%s)" % ("on" if flag else "off"), dict(scenario="debug node inside a nested DAG", exc=repr(res[1])[:200]), rp)
            elif any(c != exp for c in cnt.values()):
                col.violation(pid, "nested_dag_debug_node_does_not_follow_the_flag_at_call_time", dict(
                    flag=flag, flag_when_built=build_flag, op=op, entered=cnt, expected_each=exp), rp)
        col.hashes.add(S.spec_hash({"nested_dbg": k % 7, "b": build_flag}))
    finally:
        cfg.RUN_DEBUG_NODES = old


REGISTRY["replay:dbg_nested"] = lambda j, rp: (lambda col: ([dbg_nested(col, "C13", random.Random(q), q) for q in range(20)], col.result())[1])(Collector())


def env_flag_case(col, pid, rng, want, j):
    """Without touching cfg: a whole-DAG call runs every debug node once iff the environment switched them on."""
    for k in range(10):
        n = rng.randint(2, 6)
        edges = [(a, b) for b in range(n) for a in range(b) if rng.random() < 0.3]
        g0 = nx.DiGraph()
        g0.add_nodes_from(range(n))
        g0.add_edges_from(edges)
        debug = set()
        for i in range(n):
            if any(q in debug for q in g0.predecessors(i)) or rng.random() < 0.4:
                debug.add(i)
        if not debug:
            continue
        spec = mk_sel_spec(n, edges, rng, debug=debug)
        spec["is_async"] = rng.random() < 0.3
        plain = {name: probes.mkprobe(name) for name in spec["fns"]}
        ids = S.node_ids(spec)
        d, _e, _p = S.build_tawazi(spec, plain=plain)
        res, log = run_any(d, "call", {}, [Sym("arg", k)])
        ran = {e["node"] for e in log if e["kind"] == "FENTER"}
        col.evaluations += 1
        dbg_ran = sorted(ids[i] for i in debug if ids[i] in ran)
        exp = sorted(ids[i] for i in debug) if want else []
        if res[0] != "ok" or dbg_ran != exp:
            col.violation(pid, "debug_nodes_do_not_follow_the_environment_switch", dict(
                RUN_DEBUG_NODES=want, debug_nodes_that_ran=dbg_ran, expected=exp, outcome=res[0], source=S.render(spec)), {"kind": "rerun_job", "job": dict(j)})


@job("dbg")
def job_dbg(j):
    rng = random.Random(j["seed"])
    col = Collector()
    pid = j.get("pid", "C13")
    if j.get("only"):
        from .jobs import Filtered

        col = Filtered(col, j["only"])
    if j.get("expect_env_flag") is not None:
        # the switch given the documented way: RUN_DEBUG_NODES in the environment of the process (read when tawazi is imported)
        import os

        from tawazi.config import cfg

        want = bool(j["expect_env_flag"])
        col.counters["c13_env_flag_checks"] += 1
        col.evaluations += 1
        if bool(cfg.RUN_DEBUG_NODES) != want:
            col.violation(pid, "RUN_DEBUG_NODES_environment_variable_not_honoured", dict(
                environment=os.environ.get("RUN_DEBUG_NODES"), cfg_value=cfg.RUN_DEBUG_NODES), {"kind": "rerun_job", "job": dict(j)})
        else:
            env_flag_case(col, pid, rng, want, j)
    for q in range(j.get("random_shapes", 50)):
        n = rng.randint(2, j.get("nmax", 8))
        edges = [(a, b) for b in range(n) for a in range(b) if rng.random() < 0.3]
        try:
            dbg_shape(col, pid, rng, n, edges)
        except LegalBuildRejected:
            continue
        if q % 5 == 2:
            dbg_nested(col, pid, rng, q)
    for n in j.get("exhaustive_n", []):
        shapes = list(all_shapes(n))
        for k, edges in enumerate(shapes):
            if k % j.get("nparts", 1) == j.get("part", 0):
                try:
                    dbg_shape(col, pid, rng, n, edges)
                except LegalBuildRejected:
                    pass
                col.counters["shapes_enumerated_n%d" % n] += 1
    return col.result()


def _replay_dbg(j, rp):
    col = Collector(max_per_mech=20)
    rng = random.Random(0)
    for _ in range(5):
        try:
            dbg_shape(col, "C13", rng, rp["n"], [tuple(e) for e in rp["edges"]])
        except LegalBuildRejected:
            pass
    return col.result()


REGISTRY["replay:dbg_case"] = _replay_dbg
