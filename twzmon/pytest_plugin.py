"""W3: the repository's own test-suite run under the passive, spec-free monitors (DESIGN 2.7 W3).

Loaded with `-p twzmon.pytest_plugin` so that the stdlib boundary is patched BEFORE any test module imports tawazi.
After every test the events of that test are analysed with sched.check_generic; the verdicts are written to the JSON file
named by TWZ_W3_OUT at session end.
"""
import json
import os

from twzmon import bootstrap as B

B.install()
import tawazi  # noqa: E402,F401

B.install_tawazi_hooks()
from twzmon import sched  # noqa: E402

OUT = {"tests": 0, "executions": 0, "violations": [], "stats": {}, "outcomes": {}}


def pytest_runtest_setup(item):
    B.reset_log()


def pytest_runtest_teardown(item, nextitem):
    log = B.snapshot()
    viol, st = sched.check_generic(log)
    OUT["tests"] += 1
    for k, v in st.items():
        OUT["stats"][k] = OUT["stats"].get(k, 0) + v
    for x in viol[:3]:
        x = dict(x)
        x["test"] = item.nodeid
        OUT["violations"].append(x)
    B.close_all()


def pytest_runtest_logreport(report):
    if report.when == "call":
        OUT["outcomes"][report.outcome] = OUT["outcomes"].get(report.outcome, 0) + 1


def pytest_sessionfinish(session, exitstatus):
    OUT["reach"] = dict(B.REACH)
    p = os.environ.get("TWZ_W3_OUT")
    if p:
        with open(p, "w") as f:
            json.dump(OUT, f, default=repr)
