"""C07: compound priority = own + sum over the SET of descendants; deterministic; survives selection
and reconfiguration; unique greedy order at max_concurrency=1 (exhaustive over small DAGs)."""
from __future__ import annotations

import itertools
import random

import networkx as nx

from . import bootstrap as B
from . import probes, sched, spec as S
from .jobs import Collector, job
from .sym import Sym


def all_shapes(n):
    pairs = [(j, i) for i in range(n) for j in range(i)]
    for mask in range(1 << len(pairs)):
        yield [p for b, p in enumerate(pairs) if mask >> b & 1]


def mk_spec(n, edges, prios):
    fns = {"f%d" % i: dict(priority=prios[i], is_sequential=False, resource="thread") for i in range(n)}
    nodes = []
    for i in range(n):
        nodes.append({"fn": "f%d" % i, "args": [["n", j, []] for (j, k) in edges if k == i], "kwargs": {}, "active": None})
    return {"name": "prog", "params": [], "defaults": {}, "fns": fns, "nodes": nodes,
            "ret": ["tuple", [["n", i, []] for i in range(n)]], "mc": 1, "is_async": False}


def greedy_order(g, cp, sel):
    h = g.subgraph(sel).copy()
    order = []
    while len(h):
        roots = [x for x in h if h.in_degree(x) == 0]
        x = max(roots, key=lambda y: cp[y])
        order.append(x)
        h.remove_node(x)
    return order


def digits(v):
    return str(v)


def check_table(col, way, table, cp, ids, nodes_present, rp):
    col.counters["cp_table_checks"] += 1
    for i in sorted(nodes_present):
        if ids[i] not in table:
            col.violation("C07", "cp_table_entry_missing(%s)" % way, {"node": ids[i], "spec": cp[i], "table": {k: table[k] for k in list(table)[:8]}}, rp)
            return False
        if table[ids[i]] != cp[i]:
            col.violation("C07", "cp_table_differs_from_spec(%s)" % way,
                          {"node": ids[i], "spec": cp[i], "tawazi": table[ids[i]],
                           "note": "priorities are distinct powers of ten: digit k = how often node k was counted"}, rp)
            return False
    return True


def run_order(col, way, d_or_ex, ids, g, cp, sel, rp, is_executor=False):
    if len({cp[i] for i in sel}) != len(sel):
        # (boundary priority vectors may tie: the order is then not unique; the table clauses still apply)
        col.counters["order_checks_skipped_because_of_ties"] += 1
        probes.run_op(way, lambda: d_or_ex())
        return None
    B.reset_log()
    probes.reset_counts()
    res = probes.run_op(way, lambda: d_or_ex())
    log = B.snapshot()
    order = [e["node"] for e in log if e["kind"] == "FENTER"]
    col.counters["order_checks"] += 1
    exp = [ids[i] for i in greedy_order(g, cp, sel)]
    if res[0] != "ok":
        col.violation("C07", "execution_raised(%s)" % way, {"exc": repr(res[1])[:300]}, rp)
        return None
    if order != exp:
        col.violation("C07", "order_not_the_unique_greedy_order(%s)" % way, {"observed": order, "predicted": exp, "cp_spec": {ids[i]: cp[i] for i in sel}}, rp)
    return order


def one_shape(col, n, edges, rng, variants, sample=False):
    prios = [10 ** i for i in range(n)]
    if rng.random() < 0.5:
        rng.shuffle(prios)
    huge = rng.random() < 0.15
    if huge:
        # priorities beyond 2**53 that differ by little: integers are compared exactly however large they are (sums over distinct
        # descendant sets still differ: k * 2**60 + a sum of distinct powers of two)
        prios = [2 ** 60 + 2 ** i for i in range(n)]  # (gaps of 1, 2, 4 ... at a magnitude where doubles are 256 apart)
        rng.shuffle(prios)
        col.counters["cp_shapes_with_priorities_beyond_2_to_the_53"] += 1
    elif rng.random() < 0.4:
        # signed powers of ten: sums over distinct descendant sets stay pairwise different (coefficients in {-1, 0, 1})
        prios = [p if rng.random() < 0.5 else -p for p in prios]
        col.counters["cp_shapes_with_negative_priorities"] += 1
    if n >= 2 and not huge and rng.random() < 0.12:
        # boundary vectors: priorities that add up to exactly 0, or that are all <= 0 (no positive priority anywhere)
        if rng.random() < 0.5:
            prios[-1] = -sum(prios[:-1])
            col.counters["cp_shapes_with_priorities_summing_to_zero"] += 1
        else:
            prios = [-abs(p) for p in prios]
            prios[rng.randrange(n)] = 0
            col.counters["cp_shapes_without_positive_priority"] += 1
    sp = mk_spec(n, edges, prios)
    tagged = []
    if n >= 2 and rng.random() < 0.4:
        # a tag shared by several nodes of DIFFERENT priorities: a reload addressed to the tag that does not name `priority`
        # leaves every one of them its own
        tagged = sorted(rng.sample(range(n), rng.randint(2, n)))
        for i in tagged:
            sp["fns"]["f%d" % i]["tag"] = "T"
    if n >= 3 and all(p > 0 for p in prios) and rng.random() < 0.2:
        # a block of the nodes lives in an inner DAG: same table entries (prefixed ids), same unique order (the argument stubs of
        # the inner DAG have priority 0, so with positive priorities a stub never ranks below the node it feeds)
        a0 = rng.randrange(n)
        sp["nest"] = {"name": "nin", "first": a0, "last": min(n - 1, a0 + rng.randint(0, 2)), "mc": 1}
        col.counters["cp_shapes_with_a_block_written_as_inner_dag"] += 1
    rp = {"kind": "cp_case", "n": n, "edges": edges, "prios": prios, "variants": variants, "source": S.render(sp), "nest": sp.get("nest")}
    d, _env, _plain = S.build_tawazi(sp)
    # the SAME describing function decorated a second time, with the same options: an object of its own, untouched by what is done
    # to the first one (looked at again at the end of the case)
    twin = None
    if not sp.get("nest") and rng.random() < 0.3:
        from tawazi import dag as _dag

        twin = _dag(_env[sp["name"]], max_concurrency=sp.get("mc", 1), is_async=bool(sp.get("is_async", False)))
        col.counters["cp_describing_functions_decorated_twice"] += 1
    ids = S.node_ids(sp)
    g = S.site_graph(sp)
    cp = S.cp_spec(sp)
    cp_declared = dict(cp)
    col.evaluations += 1
    allset = set(range(n))
    orders = []
    ok = check_table(col, "call", dict(d.graph_ids.compound_priority), cp, ids, allset, rp)
    orders.append(run_order(col, "call", d, ids, g, cp, allset, rp))
    roots = [i for i in range(n) if g.in_degree(i) == 0]
    used_targets = []
    if "target" in variants:
        for t in ([rng.randrange(n)] if variants["target"] == "one" else range(n)):
            used_targets.append(t)
            sel = S.closure(sp, None, None, [t])
            ex = d.executor(target_nodes=[ids[t]])
            check_table(col, "executor_target", dict(ex.graph.compound_priority), cp, ids, sel, rp)
            orders.append(run_order(col, "executor_target", ex, ids, g, cp, sel, rp))
    if "root" in variants and roots:
        r = rng.choice(roots)
        sel = S.closure(sp, [r], None, None)
        ex = d.executor(root_nodes=[ids[r]])
        check_table(col, "executor_root", dict(ex.graph.compound_priority), cp, ids, sel, rp)
        orders.append(run_order(col, "executor_root", ex, ids, g, cp, sel, rp))
    if "exclude" in variants and n >= 2:
        x = rng.randrange(n)
        sel = S.closure(sp, None, [x], None)
        ex = d.executor(exclude_nodes=[ids[x]])
        check_table(col, "executor_exclude", dict(ex.graph.compound_priority), cp, ids, sel, rp)
        orders.append(run_order(col, "executor_exclude", ex, ids, g, cp, sel, rp))
    if "compose" in variants and n >= 2:
        # a DAG obtained through compose() is one more way of obtaining the executed graph
        import warnings

        outs = [ids[i] for i in range(n) if g.out_degree(i) == 0]
        with warnings.catch_warnings():
            warnings.simplefilter("ignore")
            c = d.compose("composed", [], outs, max_concurrency=1)
        col.counters["cp_composed_dags"] += 1
        check_table(col, "composed_dag", dict(c.graph_ids.compound_priority), cp, ids, allset, rp)
        orders.append(run_order(col, "composed_dag", c, ids, g, cp, allset, rp))
    if "config" in variants:
        p2 = list(prios)
        rng.shuffle(p2)
        if rng.random() < 0.5:
            p2[rng.randrange(n)] = 0  # reconfiguring a priority to 0 is a legal value, not "unset"
        if rng.random() < 0.5:
            # PARTIAL reconfiguration: only some nodes are named, the others keep their own priority; then a second step
            # (another partial one, or one that does not touch a priority at all)
            some = set(rng.sample(range(n), rng.randint(1, max(1, n - 1))))
            fresh = iter([10 ** k for k in range(n, 4 * n + 4)])  # values no node has had: no ties can arise
            zero = rng.choice(sorted(some)) if rng.random() < 0.3 else None
            p2 = [(0 if i == zero else next(fresh) * (1 if sp.get("nest") else rng.choice([1, 1, -1]))) if i in some else prios[i] for i in range(n)]
            conf = {"nodes": {ids[i]: {"priority": p2[i]} for i in sorted(some)}}
            d.config_from_dict(conf)
            col.counters["cp_partial_reconfigurations"] += 1
            if rng.random() < 0.6:
                k = rng.randrange(n)
                conf2 = {"nodes": {ids[k]: {"is_sequential": False}}}
                if tagged and rng.random() < 0.7:
                    conf2 = {"nodes": {"T": {"is_sequential": False}}}
                    col.counters["cp_reconfigurations_by_shared_tag_without_priority"] += 1
                j2 = rng.randrange(n)
                if rng.random() < 0.5 and not ("T" in conf2["nodes"] and j2 in tagged):
                    p2[j2] = p2[j2] * (1 if sp.get("nest") else rng.choice([1, -1]))
                    conf2["nodes"].setdefault(ids[j2], {})["priority"] = p2[j2]
                d.config_from_dict(conf2)
                col.counters["cp_second_reconfigurations"] += 1
        else:
            conf = {"nodes": {ids[i]: {"priority": p2[i]} for i in range(n)}}
            d.config_from_dict(conf)
            if rng.random() < 0.4:
                # priority PROFILES kept as dict objects by the caller: the new one, back to the declared one, and the very same
                # dict object of the new one again
                d.config_from_dict({"nodes": {ids[i]: {"priority": prios[i]} for i in range(n)}})
                d.config_from_dict(conf)
                col.counters["cp_profiles_switched_A_B_A_with_the_same_dict_object"] += 1
        sp2 = mk_spec(n, edges, p2)
        cp2 = S.cp_spec(sp2)
        rp = dict(rp, reconfigured_to=p2)
        check_table(col, "after_config_from_dict", dict(d.graph_ids.compound_priority), cp2, ids, allset, rp)
        orders.append(run_order(col, "after_config_from_dict", d, ids, g, cp2, allset, rp))
        # executors created AFTER the reconfiguration, with a selection that was already used before it
        for t in used_targets[:2]:
            sel = S.closure(sp, None, None, [t])
            ex = d.executor(target_nodes=[ids[t]])
            check_table(col, "executor_target_after_config_from_dict", dict(ex.graph.compound_priority), cp2, ids, sel, rp)
            orders.append(run_order(col, "executor_target_after_config_from_dict", ex, ids, g, cp2, sel, rp))
        ex = d.executor()
        orders.append(run_order(col, "executor_whole_after_config_from_dict", ex, ids, g, cp2, allset, rp))
        cp = cp2
    if "retry" in variants and n >= 2:
        # an executor whose first run fails is either refused or re-run from scratch - with the same priorities
        from tawazi.errors import TawaziUsageError

        f = rng.randrange(n)
        ex = d.executor()
        probes.State.faults = {ids[f]}
        try:
            B.reset_log()
            r1 = probes.run_op("executor_failing_run", lambda: ex())
        finally:
            probes.State.faults = set()
        if r1[0] != "ok":
            B.reset_log()
            r2 = probes.run_op("executor_retry", lambda: ex())
            order = [e["node"] for e in B.snapshot() if e["kind"] == "FENTER"]
            col.counters["cp_executor_retries"] += 1
            if r2[0] == "ok" and len({cp[i] for i in allset}) == len(allset):
                exp = [ids[i] for i in greedy_order(g, cp, allset)]
                col.counters["order_checks"] += 1
                if order != exp:
                    col.violation("C07", "order_not_the_unique_greedy_order(executor_retry_after_failure)",
                                  {"observed": order, "predicted": exp, "failed_first_at": ids[f]}, rp)
            elif r2[0] != "ok" and not isinstance(r2[1], TawaziUsageError):
                col.counters["cp_executor_retry_raised_other"] += 1
    if n >= 3 and not sp.get("nest") and rng.random() < 0.3:
        # setup(): an ancestor-closed set of setup nodes runs in the order of the compound priorities of the WHOLE DAG
        import copy as _copy

        sp_s = _copy.deepcopy(sp)
        sp_s.pop("nest", None)
        for fs in sp_s["fns"].values():
            fs.pop("tag", None)
        stp = set()
        for i in range(n):
            if all(q in stp for q in g.predecessors(i)) and rng.random() < 0.65:
                stp.add(i)
        if len(stp) >= 2:
            for i in stp:
                sp_s["fns"]["f%d" % i]["setup"] = True
            sp_s["fns"] = {k: dict(v, priority=prios[int(k[1:])]) for k, v in sp_s["fns"].items()}
            plain_s = {name: probes.mkprobe(name) for name in sp_s["fns"]}
            d_s, _e, _p = S.build_tawazi(sp_s, plain=plain_s)
            cp_s = S.cp_spec(sp_s)
            col.counters["cp_setup_runs"] += 1
            via = rng.choice(["dag.setup()", "executor().setup()"])
            run_order(col, "setup:" + via, (lambda: d_s.setup()) if via == "dag.setup()" else (lambda: d_s.executor().setup()), ids, g, cp_s, stp, dict(rp, setup=sorted(stp)))
    if twin is not None:
        # the second decoration of the same function: still the DECLARED priorities, whatever happened to the first object
        check_table(col, "second_decoration_of_the_same_function", dict(twin.graph_ids.compound_priority), cp_declared, ids, allset, rp)
        run_order(col, "second_decoration_of_the_same_function", twin, ids, g, cp_declared, allset, rp)
    if "debug" in variants and n >= 2:
        debug_variant(col, n, edges, prios, rng, rp)
    h = "%d:%s:%s" % (n, sorted(edges), prios)
    if n >= 2:
        col.hashes.add(S.spec_hash({"h": h}))
    if sample:
        col.sample({"source": S.render(sp), "priorities": prios, "cp_spec": {ids[i]: cp[i] for i in range(n)},
                    "tawazi_table": {k: v for k, v in d.graph_ids.compound_priority.items() if k in ids} if "config" not in variants else "reconfigured",
                    "orders_observed": orders[:3]})
    return ok


def debug_variant(col, n, edges, prios, rng, rp):
    """Debug nodes re-attached to a sub-graph run (RUN_DEBUG_NODES on) must keep their compound priority too."""
    from tawazi.config import cfg

    g0 = nx.DiGraph()
    g0.add_nodes_from(range(n))
    g0.add_edges_from(edges)
    debug = set()
    for i in range(n):
        if any(j in debug for j in g0.predecessors(i)) or rng.random() < 0.35:
            debug.add(i)
    if not debug or len(debug) == n:
        return
    sp = mk_spec(n, edges, prios)
    for i in debug:
        sp["fns"]["f%d" % i]["debug"] = True
    ids = S.node_ids(sp)
    cp = S.cp_spec(sp)
    g = S.site_graph(sp)
    old = cfg.RUN_DEBUG_NODES
    cfg.RUN_DEBUG_NODES = True
    try:
        d, _e, _p = S.build_tawazi(sp)
        nondbg = [i for i in range(n) if i not in debug]
        t = rng.choice(nondbg)
        ex = d.executor(target_nodes=[ids[t]])
        present = {ids.index(x) for x in ex.graph.nodes if x in ids}
        col.counters["cp_debug_variant_cases"] += 1
        check_table(col, "executor_target_with_debug_nodes_on", dict(ex.graph.compound_priority), cp, ids, present, rp)
        B.reset_log()
        res = probes.run_op("executor_debug", lambda: ex())
        order = [e["node"] for e in B.snapshot() if e["kind"] == "FENTER"]
        if res[0] == "ok":
            ran = {ids.index(x) for x in order}
            if len({cp[i] for i in ran}) != len(ran):
                return
            exp = [ids[i] for i in greedy_order(g, cp, ran)]
            col.counters["order_checks"] += 1
            if any(i in debug for i in ran):
                col.counters["cp_debug_nodes_pulled_in"] += 1
            if order != exp:
                col.violation("C07", "order_not_the_unique_greedy_order(executor_target_with_debug_nodes_on)",
                              {"observed": order, "predicted": exp, "debug": [ids[i] for i in sorted(debug)], "target": ids[t],
                               "cp_spec": {ids[i]: cp[i] for i in sorted(ran)}}, rp)
        # the same DAG with its debug nodes switched OFF, called several times: table and order stay what they were
        cfg.RUN_DEBUG_NODES = False
        d2, _e2, _p2 = S.build_tawazi(sp)
        nd_set = set(nondbg)
        for rep in range(3):
            way = "call_%d_with_debug_nodes_off" % (rep + 1)
            check_table(col, way, dict(d2.graph_ids.compound_priority), cp, ids, set(range(n)), rp)
            run_order(col, way, d2, ids, g, cp, nd_set, rp)
        col.counters["cp_repeated_calls_with_debug_nodes_off"] += 1
    finally:
        cfg.RUN_DEBUG_NODES = old


@job("cp")
def job_cp(j):
    rng = random.Random(j["seed"])
    col = Collector()
    variants = j.get("variants", {"target": "one", "root": 1, "exclude": 1, "config": 1})
    count = 0
    if j.get("exhaustive_n"):
        for n in j["exhaustive_n"]:
            shapes = list(all_shapes(n))
            part, nparts = j.get("part", 0), j.get("nparts", 1)
            for k, edges in enumerate(shapes):
                if k % nparts != part:
                    continue
                one_shape(col, n, edges, rng, variants, sample=(count % 400 == 3))
                count += 1
            col.counters["shapes_n%d" % n] += len([k for k in range(len(shapes)) if k % nparts == part])
    for _ in range(j.get("random_cases", 0)):
        n = rng.randint(j.get("rand_nmin", 6), j.get("rand_nmax", 9))
        edges = [(a, b) for b in range(n) for a in range(b) if rng.random() < j.get("density", 0.35)]
        one_shape(col, n, edges, rng, variants, sample=(count % 100 == 0))
        count += 1
        col.counters["random_shapes"] += 1
    res = col.result()
    if j.get("pid") and j["pid"] != "C07":
        res = _remap(res, j["pid"], tag_replay=True)
    return res


def _remap(res, pid, tag_replay=False):
    """The same workload under another property: C06 owns every ORDER observation; C15 owns what differs between the first
    and a later call on one object (repeated calls with debug nodes off, executor retried after a failure)."""
    keep = []
    for v in res["violations"]:
        m = v["mech"]
        v2 = None
        if pid == "C06" and m.startswith("order_not_the_unique_greedy_order"):
            v2 = dict(v, prop=pid, mech=m.replace("order_not_the_unique_greedy_order", "start_order_is_not_by_compound_priority"))
        elif pid == "C15" and ("call_2_with" in m or "call_3_with" in m or "executor_retry" in m):
            v2 = dict(v, prop=pid, mech="later_call_schedules_differently_from_the_first(%s)" % m)
        if v2 is not None:
            if tag_replay:
                v2["replay"] = dict(v["replay"], pid=pid)
            keep.append(v2)
    res["violations"] = keep
    return res


def _replay_cp(j, rp):
    col = Collector(max_per_mech=20)
    rng = random.Random(0)
    one_shape(col, rp["n"], [tuple(e) for e in rp["edges"]], rng, rp.get("variants", {"target": "all", "root": 1, "exclude": 1, "config": 1}))
    # the recorded priority vector itself
    sp = mk_spec(rp["n"], [tuple(e) for e in rp["edges"]], rp["prios"])
    d, _e, _p = S.build_tawazi(sp)
    check_table(col, "call", dict(d.graph_ids.compound_priority), S.cp_spec(sp), S.node_ids(sp), set(range(rp["n"])), rp)
    if rp.get("pid") and rp["pid"] != "C07":
        return _remap(col.result(), rp["pid"])
    return col.result()


from .jobs import REGISTRY  # noqa: E402

REGISTRY["replay:cp_case"] = _replay_cp
