"""Hash-consed symbolic terms (DESIGN.md section 2.2): a value identifies the computation that made it."""
import threading
import zlib

_L = threading.Lock()
_T: dict = {}
OP_FAULT = [None]  # optional callable run at the start of every operator / truth test (fault injection into operator nodes)
YIELD_IN_PICKLE = [0]  # seconds to sleep inside Sym.__reduce__ (0 = off)
YIELD_IN_BOOL = [0]  # seconds to sleep inside Sym.__bool__ (0 = off)


def _freeze(x):
    if isinstance(x, (list, tuple)):
        return (type(x).__name__,) + tuple(_freeze(y) for y in x)
    if isinstance(x, dict):
        return ("dict",) + tuple((k, _freeze(v)) for k, v in sorted(x.items(), key=lambda kv: repr(kv[0])))
    return x


_REPR_BUDGET = threading.local()


def _r(x):
    """Text of a frozen key element.  A term is a DAG with sharing: written out as a tree it can be exponentially large (a grid
    of 300 nodes) - and the standard library does call repr() on results (asyncio reprs a finished task).  The text is cut
    after a fixed number of sub-terms; nothing but display depends on it."""
    left = getattr(_REPR_BUDGET, "left", None)
    if left is not None:
        if left <= 0:
            return "..."
        _REPR_BUDGET.left = left - 1
    if isinstance(x, tuple) and x and x[0] in ("tuple", "list"):
        o, c = ("(", ")") if x[0] == "tuple" else ("[", "]")
        return o + ", ".join(_r(y) for y in x[1:]) + c
    if isinstance(x, tuple) and x and x[0] == "dict":
        return "{" + ", ".join("%r: %s" % (k, _r(v)) for k, v in x[1:]) + "}"
    return repr(x)


_serial = [0]


def _lk(x):
    """Lookup key of the intern table.  It must never make the dict call `Sym.__eq__` (an operator that builds a term - on a
    hash collision that re-entered the table lock: a deadlock found by a thorough run) nor identify 1 with True or 1.0: terms are
    replaced by their serial number, numbers carry their type."""
    if isinstance(x, Sym):
        return ("\0sym", x.i)
    if isinstance(x, Touchy):
        return ("\0touchy", x.t.i)
    if isinstance(x, Handle):
        return ("\0handle", x.t.i)
    if isinstance(x, LazySeq):
        return ("\0lazy", x.t.i)
    if isinstance(x, EqAll):
        return ("\0eqall",)
    if isinstance(x, tuple):
        return tuple(_lk(y) for y in x)
    if isinstance(x, (bool, int, float, complex)):
        return ("\0num", type(x).__name__, x)
    return x


def _hk(x):
    """Shallow, process-independent image of a key: sub-terms are represented by their own hash (terms nested hundreds of
    levels deep - long chains - must not recurse through repr)."""
    if isinstance(x, Sym):
        return ("\0h", x.h)
    if isinstance(x, (Touchy, Handle, LazySeq)):
        return ("\0th", x.t.h)
    if isinstance(x, EqAll):
        return ("\0eqall",)
    if isinstance(x, tuple):
        return tuple(_hk(y) for y in x)
    return x


def _intern(cls, k):
    lk = _lk(k)
    with _L:
        s = _T.get(lk)
        if s is None:
            s = object.__new__(cls)
            s.k = k
            s.h = zlib.crc32(repr(_hk(k)).encode())
            _serial[0] += 1
            s.i = _serial[0]
            _T[lk] = s
        return s


class Sym:
    __slots__ = ("k", "h", "i")

    def __new__(cls, *k):
        return _intern(cls, tuple(_freeze(y) for y in k))

    def __repr__(self):
        outer = getattr(_REPR_BUDGET, "left", None) is None
        if outer:
            _REPR_BUDGET.left = 3000
        try:
            if _REPR_BUDGET.left <= 0:
                return "..."
            return "%s(%s)" % (self.k[0], ", ".join(_r(x) for x in self.k[1:]))
        except RecursionError:
            return "%s(<nested too deeply to print>)" % (self.k[0],)
        finally:
            if outer:
                _REPR_BUDGET.left = None

    def __hash__(self):
        # the serial number: two different terms never have the same hash, so sets / dicts never fall back to `==`
        return self.i

    def __bool__(self):
        if OP_FAULT[0] is not None:
            OP_FAULT[0]()
        if YIELD_IN_BOOL[0]:
            # concurrency workloads: evaluating the truthiness of a value (an activation flag) is a pre-emption point
            import time

            time.sleep(YIELD_IN_BOOL[0])
        return bool(self.h & 1)

    def __deepcopy__(self, memo):
        return self

    def __copy__(self):
        return self

    def __reduce__(self):
        if YIELD_IN_PICKLE[0]:
            # concurrency workloads: writing a value to a cache file takes time (a pre-emption point inside pickling)
            import time

            time.sleep(YIELD_IN_PICKLE[0])
        return (_rebuild, (self.k,))

    def __getitem__(self, i):
        return Sym("idx", self, i)


def _rebuild(key):
    """Unpickle by re-interning on the frozen key (identity comparison survives a round trip)."""
    return _intern(Sym, key)


class Opaque:
    """An argument whose IDENTITY matters and that cannot be copied or pickled (a lock, a connection, a model handle):
    plain Python hands the caller's own object to the functions, so must a DAG call."""

    __slots__ = ("n",)

    def __init__(self, *n):
        self.n = n

    def __repr__(self):
        return "Opaque%r" % (self.n,)

    def __bool__(self):
        return zlib.crc32(repr(self.n).encode()) % 2 == 0

    def _no(self, *a, **k):
        raise TypeError("Opaque objects cannot be copied or pickled")

    __deepcopy__ = __copy__ = __reduce_ex__ = __reduce__ = _no


class TouchedValue(Exception):
    """Something inspected a value it was only supposed to pass on."""


TOUCHED: list = []  # (what, traceback summary) of every inspection of a Touchy value (read by the differential checks)


class Touchy:
    """A result that may only be PASSED ON (a lazily loaded table, an array-like whose truth value is ambiguous): comparing it,
    testing its truth, hashing, measuring, iterating, indexing, calling or copying it raises.  Plain Python hands such a value
    from one function to the next without looking at it, so must a DAG call.  `t` is the term that identifies it."""

    __slots__ = ("t",)

    def __init__(self, base):
        self.t = Sym("touchy", base)

    def __repr__(self):
        return "Touchy(%r)" % (self.t,)

    def _no(self, *a, **k):
        import traceback

        fr = traceback.extract_stack(limit=6)[:-1]
        TOUCHED.append(" <- ".join("%s:%d:%s" % (f.filename.rsplit("/", 2)[-1], f.lineno, f.name) for f in reversed(fr)))
        raise TouchedValue("a value that is only to be passed on was inspected")

    __bool__ = __eq__ = __ne__ = __lt__ = __le__ = __gt__ = __ge__ = __hash__ = __len__ = __iter__ = __getitem__ = __contains__ = _no
    __call__ = __deepcopy__ = __copy__ = __reduce_ex__ = __reduce__ = __index__ = __int__ = __float__ = _no


class Handle:
    """A result whose IDENTITY matters (a connection, a model handle with internal state): plain Python hands the consumers the
    very object the producer returned.  A copy remembers that it is one (`copied`), so does an object that came out of a pickle
    (`unpickled` - legitimate for results restored from a cache file)."""

    __slots__ = ("t", "copied", "unpickled")

    def __init__(self, t, copied=False, unpickled=False):
        self.t = t
        self.copied = copied
        self.unpickled = unpickled

    def __repr__(self):
        return "Handle(%r%s)" % (self.t, ", a copy" if self.copied else "")

    def __bool__(self):
        return bool(self.t.h & 1)

    def __deepcopy__(self, memo):
        return Handle(self.t, copied=True, unpickled=self.unpickled)

    __copy__ = lambda self: Handle(self.t, copied=True, unpickled=self.unpickled)  # noqa: E731

    def __reduce__(self):
        return (_rebuild_handle, (self.t,))


def _rebuild_handle(t):
    return Handle(t, unpickled=True)


class EqAll:
    """A wildcard value (like unittest.mock.ANY): equal to everything, unequal to nothing.  As an argument, a constant or a
    default it is a value like any other - code that compares values with `==` / `!=` where it means `is` / `is not` trips."""

    def __eq__(self, other):
        return True

    def __ne__(self, other):
        return False

    def __hash__(self):
        return 7

    def __repr__(self):
        return "EQALL"

    def __deepcopy__(self, memo):
        return self

    __copy__ = lambda self: self  # noqa: E731

    def __reduce__(self):
        return (_the_eqall, ())


EQALL = EqAll()


def _the_eqall():
    return EQALL


class LazySeq:
    """A sequence that MAKES its elements when they are asked for (an array whose items are fresh scalar objects, a row of a
    table): every `seq[i]` is a new object that dies as soon as nobody holds it - its address is free for the next one."""

    __slots__ = ("t", "n")

    def __init__(self, t, n):
        self.t = t
        self.n = n

    def __repr__(self):
        return "LazySeq(%r)" % (self.t,)

    def __bool__(self):
        return bool(self.t.h & 1)

    def __getitem__(self, i):
        if not isinstance(i, int) or not 0 <= i < self.n:
            raise IndexError("LazySeq index out of range")
        # a fresh float (exact floats come from CPython's free list: the address of the previous temporary is the first to be
        # handed out again); 0.0 for the falsy half of the elements
        el = Sym("el", self.t, i)
        return float(el.i) * (el.h & 1)

    def __deepcopy__(self, memo):
        return self

    __copy__ = lambda self: self  # noqa: E731


def copies_in(*values):
    """The Handle objects among the values (one level into tuples / lists / dicts) that are copies."""
    out = []
    for v in values:
        for x in (v.values() if isinstance(v, dict) else v if isinstance(v, (tuple, list)) else [v]):
            if isinstance(x, Handle) and x.copied:
                out.append(x)
    return out


def _bin(op):
    def f(a, b):
        if OP_FAULT[0] is not None:
            OP_FAULT[0]()
        return Sym(op, a, b)

    return f


CMP = "lt le gt ge eq ne".split()
ARI = "add sub mul truediv floordiv mod pow lshift rshift and xor or matmul".split()
for _op in ARI + CMP:
    setattr(Sym, "__%s__" % _op, _bin(_op))
    if _op not in CMP:
        setattr(Sym, "__r%s__" % _op, _bin("r" + _op))
for _op in "neg pos abs invert".split():
    setattr(Sym, "__%s__" % _op, (lambda o: lambda a: (OP_FAULT[0]() if OP_FAULT[0] is not None else None, Sym(o, a))[1])(_op))


def same(a, b):
    """Structural equality of containers, identity of interned terms."""
    if type(a) is not type(b):  # (also keeps a wildcard on one side from being "equal" to anything)
        return False
    if isinstance(a, (tuple, list)):
        return len(a) == len(b) and all(same(x, y) for x, y in zip(a, b))
    if isinstance(a, dict):
        return a.keys() == b.keys() and all(same(a[k], b[k]) for k in a)
    if isinstance(a, Sym):
        return a is b
    if isinstance(a, (Touchy, Handle, LazySeq)):
        return a.t is b.t
    if isinstance(a, EqAll):
        return a is b
    return a == b


def short(x, limit=300):
    try:
        s = repr(x)
    except RecursionError:
        s = "<term nested too deeply to print>"
    return s if len(s) <= limit else s[: limit - 3] + "..."


def mentions(x, pred):
    """Does any sub-term / element of x satisfy pred (used for foreign-nonce leak witnesses)?"""
    seen = set()

    def walk(v):
        if isinstance(v, Sym):
            if id(v) in seen:
                return False
            seen.add(id(v))
            return walk_frozen(v.k)
        if isinstance(v, (Touchy, Handle, LazySeq)):
            return walk(v.t)
        if isinstance(v, (list, tuple)):
            return any(walk(e) for e in v)
        if isinstance(v, dict):
            return any(walk(e) for e in v.values())
        return bool(pred(v))

    def walk_frozen(k):
        if isinstance(k, (Sym, Touchy, Handle, LazySeq)):
            return walk(k)
        if isinstance(k, tuple):
            if pred(k):
                return True
            return any(walk_frozen(e) for e in k)
        return bool(pred(k))

    return walk(x)
