"""History-model jobs: C11 (setup nodes), C15 (no state leaks / single-use executors), C18 (cache restart)."""
from __future__ import annotations

import asyncio
from collections import Counter
import copy
import os
import pickle
import random
import shutil
import tempfile
import warnings

import networkx as nx

from . import bootstrap as B
from . import probes, spec as S
from .jobs import REGISTRY, Collector, job
from .seljobs import mk_sel_spec
from .sym import Sym, mentions, same, short


def do(d, thunk_sync, thunk_async):
    from tawazi import AsyncDAG

    if isinstance(d, AsyncDAG):
        return asyncio.run(thunk_async())
    return thunk_sync()


def observed(log):
    ent = {}
    vals = {}
    for e in log:
        if e["kind"] == "FENTER":
            ent[e["node"]] = ent.get(e["node"], 0) + 1
        if e["kind"] == "FEXIT" and e.get("ok"):
            vals[e["node"]] = e["value"]
    return ent, vals


async def _acall(f, args):
    return await f(*args)


def op_call(d, args):
    async def a():
        return await d(*args)

    return do(d, lambda: d(*args), a)


def op_exec(d, kw, args):
    ex = d.executor(**S.spell_selections(kw))

    async def a():
        return await ex(*args)

    return do(d, lambda: ex(*args), a)


def op_setup(d, kw):
    kw = S.spell_selections(kw)

    async def a():
        return await d.setup(**kw)

    return do(d, lambda: d.setup(**kw), a)


# ------------------------------------------------------------------------------------------------ C11
def gen_hist_spec(rng):
    n = rng.randint(3, 7)
    edges = [(a, b) for b in range(n) for a in range(b) if rng.random() < 0.4]
    g = nx.DiGraph()
    g.add_nodes_from(range(n))
    g.add_edges_from(edges)
    setup = set()
    for i in range(n):
        if all(j in setup for j in g.predecessors(i)) and rng.random() < 0.55 and len(setup) < 4:
            setup.add(i)
    if not setup:
        setup.add(0)
        edges = [(a, b) for (a, b) in edges if b != 0]
    sp = mk_sel_spec(n, edges, rng, setup=setup, with_param={i for i in range(n) if i not in setup and rng.random() < 0.4})
    # reuse of one setup function with different constants
    for i in sorted(setup):
        sp["nodes"][i]["args"].append(["c", "k%d" % i])
    if len(setup) >= 2 and rng.random() < 0.5:
        a, b = sorted(setup)[:2]
        sp["nodes"][b]["fn"] = sp["nodes"][a]["fn"]
        del sp["fns"]["f%d" % b]
    # a side-effect-only setup function legitimately returns None (its leaves only: nobody indexes it)
    g2 = S.site_graph(sp)
    for i in sorted(setup):
        fn = sp["nodes"][i]["fn"]
        if rng.random() < 0.25 and sum(1 for m in sp["nodes"] if m["fn"] == fn) == 1:
            sp["fns"][fn]["shape"] = ["none"]
        elif rng.random() < 0.4:
            # a handle whose identity matters (a connection, a loaded model): every later execution is handed this very object
            sp["fns"][fn]["shape"] = ["handle"]
    sp["is_async"] = rng.random() < 0.4
    if rng.random() < 0.4:
        # activation flags taken from SETUP results: whether a node runs is only known once its setup node has a value
        for i in range(n):
            earlier = [j for j in sorted(setup) if j < i]
            users = [m for m in sp["nodes"] if any(a[0] == "n" and a[1] == i for a in list(m["args"]) + list(m["kwargs"].values()))]
            if i not in setup and earlier and not users and rng.random() < 0.5:
                sp["nodes"][i]["active"] = ["n", rng.choice(earlier), []]
    if rng.random() < 0.5:
        # tags as aliases: shared between functions, and substrings of each other ("m_1" in "m_10", "xm_1")
        idp = S.node_ids(sp)
        for fn in sorted(sp["fns"]):
            if rng.random() < 0.5:
                # ... or spelled exactly like the id of a node of ANOTHER function (a tag wins: the string then denotes the tagged
                # nodes only, never "both")
                foreign = [x for q, x in enumerate(idp) if sp["nodes"][q]["fn"] != fn]
                sp["fns"][fn]["tag"] = rng.choice(["m_1", "m_10", "m_1", "xm_1", "m_"] + ([rng.choice(foreign)] * 2 if foreign else []))
    return sp, setup


def tags_by_site(sp):
    return {i: sp["fns"][nd["fn"]]["tag"] for i, nd in enumerate(sp["nodes"]) if sp["fns"][nd["fn"]].get("tag") is not None}


def aliasize(rng, sp, ids, ts, d=None):
    """Spell a selection with tags where possible; returns (aliases, the call sites they denote)."""
    tg = tags_by_site(sp)
    out, den = [], set()
    for i in ts:
        if i in tg and rng.random() < 0.5:
            out.append(tg[i])
            den |= {j for j, t in tg.items() if t == tg[i]}
        elif ids[i] in tg.values():
            # this node's id is also somebody's tag: as a string it would denote the tagged nodes - name the node by reference
            if d is None:
                continue
            out.append(d.get_node_by_id(ids[i]))
            den.add(i)
        else:
            out.append(ids[i])
            den.add(i)
    return out, sorted(den)


from .jobs import Filtered as _Filtered  # noqa: E402


def c11_history(col, rng, hidx, jobref=None):
    pid = (jobref or {}).get("pid", "C11")
    col = _Filtered(col, (jobref or {}).get("only"))
    sp, setup = gen_hist_spec(rng)
    if (jobref or {}).get("flavour") == "async":
        sp["is_async"] = True
    if (jobref or {}).get("require_flags") and not any(nd.get("active") for nd in sp["nodes"]):
        return  # (this property's clauses only concern programs with activation flags)
    plain = S.make_fns(sp)
    ids = S.node_ids(sp)
    n = len(ids)
    d0, _e, _p = S.build_tawazi(sp, plain=plain)
    insts = {0: copy.deepcopy(d0) if rng.random() < 0.5 else d0}
    model = {0: {}}
    hist = []
    rp = {"kind": "rerun_job", "job": dict(jobref or {}, n_histories=hidx + 1), "source": S.render(sp), "setup": [ids[i] for i in sorted(setup)]}
    total_setup_runs = {0: {}}
    pending = {}
    for step in range(rng.randint(3, 10)):
        k = rng.choice(list(insts))
        d, m = insts[k], model[k]
        op = rng.choice(["call", "call", "exec", "exec", "setup", "setup_t", "copy", "exec_create", "exec_run_pending", "config", "exec_setup",
                         "foreign_cache"])
        if op == "foreign_cache":
            # another instance (a deep copy with its OWN setup values) writes a cache file; this instance then runs an executor
            # started from that file.  Whatever that run returns (not judged here): the setup values this instance already had
            # stay its values, and no setup node it had already run runs again.
            others = [q for q in insts if q != k]
            if not others or not m:
                continue
            jx = rng.choice(others)
            tmpd = tempfile.mkdtemp(prefix="twzc11_")
            try:
                path = os.path.join(tmpd, "foreign.pkl")
                a_ = [Sym("arg", hidx, step, "w")]
                B.reset_log()
                rw = probes.run_op("foreign_cache_write", lambda: op_exec(insts[jx], {"cache_in": path}, a_))
                ent_w, vals_w = observed(B.snapshot())
                for i in setup:
                    if ids[i] in vals_w and i not in model[jx]:
                        model[jx][i] = vals_w[ids[i]]
                for x, c in ent_w.items():
                    if x in ids and ids.index(x) in setup:
                        total_setup_runs[jx][x] = total_setup_runs[jx].get(x, 0) + c
                if rw[0] != "ok" or not os.path.exists(path):
                    continue
                with open(path, "rb") as fh:
                    cached = pickle.load(fh)  # noqa: S301
                B.reset_log()
                rr = probes.run_op("restart_from_foreign_cache", lambda: op_exec(d, {"from_cache": path}, a_))
                ent_r, vals_r = observed(B.snapshot())
                hist.append(("executor(from_cache=<file written by instance %d>)" % jx, k, rr[0]))
                col.counters["c11_restarts_from_a_foreign_cache_file"] += 1
                for x, c in ent_r.items():
                    if x in ids and ids.index(x) in setup:
                        total_setup_runs[k][x] = total_setup_runs[k].get(x, 0) + c
                        if total_setup_runs[k][x] > 1:
                            col.violation(pid, "setup_node_ran_more_than_once_on_one_instance", dict(node=x, times=total_setup_runs[k][x], history=hist, source=S.render(sp)), dict(rp, history=list(hist)))
                if rr[0] == "ok":
                    for i in setup:
                        if i not in m:
                            if ids[i] in cached:
                                m[i] = cached[ids[i]]  # (setup results found in the file are promoted to the instance)
                            elif ids[i] in vals_r:
                                m[i] = vals_r[ids[i]]
                else:
                    for i in setup:
                        if i not in m and ids[i] in vals_r:
                            m[i] = vals_r[ids[i]]
            finally:
                shutil.rmtree(tmpd, ignore_errors=True)
            continue
        if op == "config":
            # a configuration reload that names a (possibly setup) node must not change what is a setup node
            i = rng.randrange(n)
            uses = sum(1 for m_ in sp["nodes"] if m_["fn"] == sp["nodes"][i]["fn"])
            if uses == 1:
                conf = {"nodes": {ids[i]: {"priority": rng.randint(-2, 6)}}}
                try:
                    d.config_from_dict(conf)
                    hist.append(("config_from_dict", k, conf))
                    col.counters["c11_config_reloads"] += 1
                except BaseException as e:  # noqa: BLE001
                    col.violation(pid, "config_reload_raised", dict(exc=repr(e)[:200], conf=conf, source=S.render(sp)), rp)
            continue
        if op == "exec_create":
            ts = rng.sample(range(n), rng.randint(1, min(3, n)))
            al, ts = aliasize(rng, sp, ids, ts, d)
            kwp = {"target_nodes": al}
            pending.setdefault(k, []).append((d.executor(**kwp), S.closure(sp, None, None, ts), kwp))
            hist.append(("executor_created_run_later", k, S.jsonable(kwp)))
            continue
        if op == "exec_run_pending" and not pending.get(k):
            continue
        if op == "copy":
            j = max(insts) + 1
            insts[j] = copy.deepcopy(d)
            for v_ in insts[j].results.values():
                # the copied instance owns copies of the setup results made so far: for IT they are the objects to hand on
                if hasattr(v_, "copied"):
                    v_.copied = False
            model[j] = dict(m)
            total_setup_runs[j] = dict(total_setup_runs[k])
            hist.append(("deepcopy", k, j))
            col.counters["c11_deepcopies"] += 1
            continue
        args = [Sym("arg", hidx, step)] if rng.random() < 0.8 else []
        kw = {}
        if op == "call":
            sel = set(range(n))
            thunk = lambda: op_call(d, args)  # noqa: E731
        elif op == "exec":
            ts = rng.sample(range(n), rng.randint(0 if rng.random() < 0.1 else 1, min(3, n)))
            al, ts = aliasize(rng, sp, ids, ts, d)
            kw = {"target_nodes": al}
            sel = S.closure(sp, None, None, ts)
            thunk = lambda: op_exec(d, kw, args)  # noqa: E731
        elif op == "exec_run_pending":
            exo, sel, kw = pending[k].pop(rng.randrange(len(pending[k])))

            async def _arun(exo=exo):
                return await exo(*args)

            thunk = lambda exo=exo, _arun=_arun: do(d, lambda: exo(*args), _arun)  # noqa: E731
            op = "exec"
            col.counters["c11_deferred_executor_runs"] += 1
        elif op == "setup":
            sel = set(setup)
            thunk = lambda: op_setup(d, {})  # noqa: E731
        elif op == "exec_setup":
            # executor(target_nodes=T).setup() == setup(target_nodes=T), in both flavours
            ts = rng.sample(range(n), rng.randint(1, min(3, n)))
            al, ts = aliasize(rng, sp, ids, ts, d)
            kw = {"target_nodes": al}
            sel = S.closure(sp, None, None, ts) & set(setup)
            exo = d.executor(**kw)

            async def _asetup(exo=exo):
                return await exo.setup()

            thunk = lambda exo=exo, _asetup=_asetup: do(d, lambda: exo.setup(), _asetup)  # noqa: E731
            op = "setup_t"
            kw = dict(kw, via="executor.setup()")
            col.counters["c11_executor_setup_operations"] += 1
        else:
            # an empty target list is a legal empty selection (nothing to set up), different from "not given"
            ts = rng.sample(range(n), rng.randint(0, 2))
            al, ts = aliasize(rng, sp, ids, ts, d)
            kw = {"target_nodes": al}
            sel = S.closure(sp, None, None, ts) & set(setup)
            thunk = lambda: op_setup(d, kw)  # noqa: E731
        hist.append((op, k, S.jsonable(kw)))
        B.reset_log()
        probes.reset_counts()
        B.Settings.controlled = rng.random() < 0.5  # controller-chosen completion orders for half of the operations
        try:
            res = probes.run_op(op, thunk)
        finally:
            B.Settings.controlled = False
        log = B.snapshot()
        ent, vals = observed(log)
        col.evaluations += 1
        col.counters["c11_ops"] += 1
        rp2 = dict(rp, history=list(hist))
        col.generic(log, rp2)
        for e in log:
            if e["kind"] == "COPY_DELIVERED":
                # the object a setup node produced is what every execution hands on - not a copy of it
                col.violation(pid, "a_copy_of_a_setup_result_was_handed_to_a_consumer", dict(
                    consumer=e.get("node"), value=repr(e.get("value"))[:160], history=hist, source=S.render(sp)), rp2)
                break
        if res[0] != "ok":
            col.violation(pid, "operation_raised", dict(op=op, exc=repr(res[1])[:300], history=hist, source=S.render(sp)), rp2)
            return
        # activity (flags fed by setup results) can only be predicted with the setup values this very operation produced
        m_after = dict(m)
        for i in sel:
            if i in setup and i not in m_after and ids[i] in vals:
                m_after[i] = vals[ids[i]]
        act = {}
        if op in ("call", "exec") and any(nd.get("active") for nd in sp["nodes"]):
            ref0 = S.run_reference(sp, args, plain, enabled=sel, env_values=dict(m_after))
            if ref0[0] == "ok":
                act = ref0[1].active
        exp_run = {ids[i] for i in sel if i not in m and (i in setup or act.get(i, True))}
        got = set(ent)
        for x, c in ent.items():
            if x in ids and ids.index(x) in setup:
                tr = total_setup_runs[k]
                tr[x] = tr.get(x, 0) + c
                col.counters["c11_setup_entries"] += c
                if tr[x] > 1:
                    col.violation(pid, "setup_node_ran_more_than_once_on_one_instance", dict(node=x, times=tr[x], history=hist, source=S.render(sp)), rp2)
        if got != exp_run or any(c != 1 for c in ent.values()):
            extra_setup = [x for x in got - exp_run if x in ids and ids.index(x) in setup]
            mech = "ran_setup_node_the_selection_does_not_need" if extra_setup and op in ("exec", "setup_t", "setup") else "executed_set_differs_from_model"
            col.violation(pid, mech, dict(op=op, selection=S.jsonable(kw), executed=sorted(ent.items()), expected=sorted(exp_run),
                                          already_set_up=sorted(ids[i] for i in m), history=hist, source=S.render(sp)), rp2)
        for i in sel:
            if i in setup and i not in m:
                if ids[i] in vals:
                    m[i] = vals[ids[i]]
                else:
                    col.violation(pid, "setup_node_in_selection_did_not_run", dict(node=ids[i], op=op, history=hist), rp2)
        if op in ("call", "exec"):
            ref = S.run_reference(sp, args, plain, enabled=sel, env_values=dict(m))
            if ref[0] == "ok":
                col.counters["c11_value_checks"] += 1
                if not same(ref[1].result, res[1]):
                    col.violation(pid, "later_execution_does_not_see_first_setup_value", dict(
                        op=op, expected=short(ref[1].result, 400), got=short(res[1], 400), history=hist, source=S.render(sp)), rp2)
    col.hashes.add(S.spec_hash({"s": S.render(sp), "h": S.jsonable(hist)}))
    if hidx % 40 == 0:
        col.sample(dict(source=S.render(sp), setup=[ids[i] for i in sorted(setup)], is_async=sp["is_async"], history=S.jsonable(hist)))


def illegal_setup_variants(rng, deps=("non_setup_dep", "dag_arg")):
    """(variant name, spec) of DAGs whose setup node depends on a non-setup node / on a DAG argument - whatever the way the
    dependency is passed (first / later positional argument, keyword argument, after constants, indexed, activation flag)."""
    for dep in deps:
        for how in ("pos_first", "pos_after_const", "kw", "kw_after_const_pos", "flag", "pos_indexed", "second_of_two_deps",
                    "kw_indexed_twice", "flag_indexed"):
            # site 0: plain producer, site 1: a legal setup node, site 2: the offending setup node, site 3: a user
            sp = mk_sel_spec(4, [(2, 3)], rng, setup={1, 2})
            keys = [0] if how == "pos_indexed" else ["models", 0] if how == "kw_indexed_twice" else ["on"] if how == "flag_indexed" else []
            # (an indexed DAG argument - `cfg["model"]` - is a usage of that argument like the argument itself)
            bad = ["n", 0, keys] if dep == "non_setup_dep" else ["p", "x", keys]
            nd = sp["nodes"][2]
            if how == "kw_indexed_twice":
                nd["kwargs"] = {"k": bad}
            elif how == "flag_indexed":
                nd["active"] = bad
            elif how == "pos_first":
                nd["args"] = [bad]
            elif how == "pos_after_const":
                nd["args"] = [["c", "model"], ["c", 3], bad]
            elif how == "kw":
                nd["kwargs"] = {"k": bad}
            elif how == "kw_after_const_pos":
                nd["args"] = [["c", "model"]]
                nd["kwargs"] = {"a": ["c", 1], "k": bad}
            elif how == "flag":
                nd["active"] = bad
            elif how == "pos_indexed":
                nd["args"] = [bad]
            else:
                nd["args"] = [["n", 1, []], bad]  # a legal setup dependency first, the illegal one second
            yield "%s:%s" % (dep, how), sp


def c11_illegal(col, rng):
    """setup node depending on a non-setup node / on a DAG argument must be rejected at build"""
    pid = "C11"
    for variant, sp in illegal_setup_variants(rng):
        col.evaluations += 1
        col.counters["c11_illegal_build_cases"] += 1
        try:
            S.build_tawazi(sp)
            col.violation(pid, "illegal_setup_dependency_not_rejected(%s)" % variant, dict(source=S.render(sp)), {"kind": "c11_illegal"})
        except BaseException as e:  # noqa: BLE001
            if isinstance(e, (KeyboardInterrupt, SystemExit)):
                raise
            col.counters["c11_illegal_build_rejected"] += 1


def c15_setup_fed_by_argument(col, rng, jobref=None):
    """C15's side of the same rule: IF a DAG whose setup node uses a DAG argument can be built at all, its second call must still
    be computed from the second call's argument (a setup result computed from the first call's argument would leak into it)."""
    pid = (jobref or {}).get("pid", "C15")
    for variant, sp in illegal_setup_variants(rng, deps=("dag_arg",)):
        col.evaluations += 1
        # (plain probes also for the setup functions: values are the reference's terms)
        plain = {name: probes.mkprobe(name, shape=None) for name, fs in sp["fns"].items()}
        try:
            d, _e, _p = S.build_tawazi(sp, plain=plain)
        except BaseException as e:  # noqa: BLE001
            if isinstance(e, (KeyboardInterrupt, SystemExit)):
                raise
            col.counters["c15_dags_with_argument_fed_setup_node_refused_at_build"] += 1
            continue
        col.counters["c15_dags_with_argument_fed_setup_node_built"] += 1
        rp = {"kind": "rerun_job", "job": dict(jobref or {}), "variant": variant, "source": S.render(sp)}
        # two arguments of different truthiness (the argument may be the setup node's activation flag)
        k1 = next(k for k in range(1, 50) if not bool(Sym("arg", "leak", k)))
        k2 = next(k for k in range(1, 50) if bool(Sym("arg", "leak", k)))
        if rng.random() < 0.5:
            k1, k2 = k2, k1
        outs = []
        for k in (k1, k2):
            B.reset_log()
            r = probes.run_op("call", lambda k=k: op_call(d, [Sym("arg", "leak", k)]))
            outs.append((r, [(e["node"], e["args"], e["kwargs"]) for e in B.snapshot() if e["kind"] == "FENTER"]))
        seen_first = [x for (_n, a, kw) in outs[1][1] for x in list(a) + list(kw.values())
                      if isinstance(x, Sym) and mentions(x, lambda q: q == ("arg", "leak", k1))]
        r2 = outs[1][0]
        ref2 = S.run_reference(sp, [Sym("arg", "leak", k2)], plain)
        leaked = (r2[0] == "ok" and mentions(r2[1], lambda q: q == ("arg", "leak", k1))) or bool(seen_first)
        differs = r2[0] == "ok" and ref2[0] == "ok" and not same(ref2[1].result, r2[1])
        if leaked or differs:
            col.violation(pid, "later_call_computed_from_an_earlier_calls_argument(setup node fed by a DAG argument: %s)" % variant,
                          dict(second_call=short(r2[1] if r2[0] == "ok" else r2, 300), plain_python=short(ref2[1].result, 300) if ref2[0] == "ok" else None,
                               source=S.render(sp)), rp)


def c11_illegal_through_operators(col, k):
    """A setup node may not depend on a DAG argument / a non-setup node THROUGH an operator node either (`load(x + "/w")`,
    `load(-produce(x))`, `load("p/" + x)`): an operator on results is an ordinary non-setup node."""
    from tawazi import dag, xn

    pid = "C11"
    load = xn(setup=True)(probes.mkprobe("io_load%d" % k, setup=True))
    prod = xn(probes.mkprobe("io_prod%d" % k))
    use = xn(probes.mkprobe("io_use%d" % k))

    def v_arg_binary(x):
        return use(load(x + 1))

    def v_arg_reflected(x):
        return use(load(2 * x))

    def v_arg_unary(x):
        return use(load(-x))

    def v_node_binary(x):
        return use(load(prod(x) + 1))

    def v_node_unary(x):
        return use(load(abs(prod(x))))

    def v_default_arg(x=3):
        return use(load(x - 1))

    for fn in (v_arg_binary, v_arg_reflected, v_arg_unary, v_node_binary, v_node_unary, v_default_arg):
        fn.__qualname__ = fn.__name__ = "%s_%d" % (fn.__name__, k)
        col.evaluations += 1
        col.counters["c11_illegal_build_cases"] += 1
        try:
            dag(fn)
            col.violation(pid, "illegal_setup_dependency_not_rejected(through_operator:%s)" % fn.__name__.rsplit("_", 1)[0], dict(variant=fn.__name__), {"kind": "c11_illegal"})
        except BaseException as e:  # noqa: BLE001
            if isinstance(e, (KeyboardInterrupt, SystemExit)):
                raise
            col.counters["c11_illegal_build_rejected"] += 1


def c11_nested_setup(col, rng, k, jobref=None):
    """A DAG with a setup node called inside another DAG: what was already set up on the inner DAG is not set up again."""
    from tawazi import dag, xn

    pid = (jobref or {}).get("pid", "C11")
    col = _Filtered(col, (jobref or {}).get("only"))
    s_ = xn(setup=True)(probes.mkprobe("ns_setup%d" % k, setup=True))
    f_ = xn(probes.mkprobe("ns_f%d" % k))
    g_ = xn(probes.mkprobe("ns_g%d" % k))
    is_async = rng.random() < 0.3

    def inner_fn(x):
        m = s_("model")
        return f_(m, x)

    inner_fn.__name__ = inner_fn.__qualname__ = "ns_inner%d" % k
    inner = dag(inner_fn)
    pre = rng.choice(["none", "setup", "call"])
    rp = {"kind": "rerun_job", "job": dict(jobref or {}), "scenario": "nested_setup", "inner_history": pre}
    counts = {"setup": 0}
    B.reset_log()
    if pre == "setup":
        probes.run_op("inner.setup", lambda: inner.setup())
    elif pre == "call":
        probes.run_op("inner.call", lambda: inner(Sym("arg", k, "i")))
    counts["setup"] += sum(1 for e in B.snapshot() if e["kind"] == "FENTER" and e["fn"] == "ns_setup%d" % k)

    as_node = rng.random() < 0.4
    if as_node:
        # the inner DAG OBJECT is the function of a node of the outer DAG (it then runs as one node, in a worker thread): it is the
        # same instance in every outer execution, so its setup node still runs once in total
        inner_node = xn(inner)
        rp["scenario"] = "dag_object_as_node_function"
        col.counters["c11_dag_objects_used_as_node_functions"] += 1

        def outer_fn(x):
            r = inner_node(x)
            return g_(r)
    elif rng.random() < 0.4:
        # the nested call carries a RUN-TIME activation flag (truthy in every execution here): the inner DAG's setup node is
        # still a setup node of the outer DAG - it runs once
        rp["scenario"] = "nested_setup_under_a_run_time_flag"
        col.counters["c11_nested_setup_under_a_flag"] += 1

        def outer_fn(x, flag=1):
            r = inner(x, twz_active=flag)
            return g_(r)
    else:
        def outer_fn(x):
            r = inner(x)
            return g_(r)

    outer_fn.__name__ = outer_fn.__qualname__ = "ns_outer%d" % k
    outer = dag(is_async=is_async)(outer_fn)
    steps = rng.sample(["setup", "call", "call", "exec"], rng.randint(2, 4))
    for st in steps:
        B.reset_log()
        if st == "setup":
            r = probes.run_op("outer.setup", lambda: op_setup(outer, {}))
        elif st == "call":
            r = probes.run_op("outer.call", lambda: op_call(outer, [Sym("arg", k, "o")]))
        else:
            r = probes.run_op("outer.executor", lambda: op_exec(outer, {}, [Sym("arg", k, "e")]))
        counts["setup"] += sum(1 for e in B.snapshot() if e["kind"] == "FENTER" and e["fn"] == "ns_setup%d" % k)
        col.evaluations += 1
        if r[0] != "ok":
            col.violation(pid, "operation_raised", dict(op=st, exc=repr(r[1])[:300], scenario="nested_setup", inner_history=pre, steps=steps), rp)
            return
    col.counters["c11_nested_setup_scenarios"] += 1
    if counts["setup"] != 1:
        col.violation(pid, "setup_node_ran_more_than_once_on_one_instance", dict(
            scenario="setup node of a DAG %s another DAG" % ("used as a node function of" if as_node else "nested in"), times=counts["setup"],
            inner_history=pre, outer_steps=steps, is_async=is_async), rp)
    col.hashes.add(S.spec_hash({"nested_setup": pre, "steps": steps, "a": is_async}))


@job("hist11")
def job_hist11(j):
    rng = random.Random(j["seed"])
    col = Collector()
    if j.get("nested_only"):
        # only the scenario "a DAG with a setup node called inside another DAG" (re-used by other properties' checks)
        for h in range(j["n_histories"]):
            c11_nested_setup(col, rng, h, jobref=j)
        return col.result()
    for h in range(j["n_histories"]):
        c11_history(col, rng, h, jobref=j)
        if h % 5 == 4:
            c11_nested_setup(col, rng, h, jobref=j)
    c11_illegal(col, rng)
    if not j.get("only") or any("illegal" in m for m in j["only"]):
        c11_illegal_through_operators(col, j["seed"] % 1000)
    return col.result()


def _replay_c11(j, rp):
    col = Collector(max_per_mech=20)
    rng = random.Random(3)
    for h in range(30):
        c11_history(col, rng, h)
    return col.result()


REGISTRY["replay:c11_case"] = _replay_c11
REGISTRY["replay:c11_illegal"] = lambda j, rp: (lambda col: (c11_illegal(col, random.Random(0)), col.result())[1])(Collector())


# ------------------------------------------------------------------------------------------------ C15
def gen_leak_spec(rng):
    from .sched import gen_shape

    sp = gen_shape(rng, nmin=3, nmax=7, flags=True, reuse=True, mc_max=3)
    sp["params"] = ["x", "y"]
    sp["defaults"] = {"y": rng.choice([("D", 1), ("D", 1), 0, None, ""])}
    indexed = {a[1] for m in sp["nodes"] for a in list(m["args"]) + list(m["kwargs"].values()) + ([m["active"]] if m.get("active") else [])
               if a[0] == "n" and a[2]}
    for i_, nd in enumerate(sp["nodes"]):
        if nd["active"] is None and i_ not in indexed and rng.random() < 0.15:
            # the activation flag is a defaulted DAG argument (truthy in some calls, falsy in others); never on a call whose
            # result is indexed by a consumer (indexing the None of a deactivated call is outside the fragment, DESIGN 6.9)
            nd["active"] = ["p", "y"]
        r = rng.random()
        if r < 0.2:
            nd["args"].append(["p", "y"])
        elif r < 0.35:
            nd["kwargs"]["ky"] = ["p", "y"]
        elif r < 0.45:
            nd["kwargs"]["kx"] = ["p", "x"]
    if not any(a == ["p", "x"] for nd in sp["nodes"] for a in nd["args"]):
        sp["nodes"][0]["args"].append(["p", "x"])
    sp["is_async"] = rng.random() < 0.3
    return sp


def c15_history(col, rng, hidx, jobref=None):
    from tawazi.errors import TawaziArgumentException, TawaziUsageError

    pid = (jobref or {}).get("pid", "C15")
    col = _Filtered(col, (jobref or {}).get("only"))
    sp = gen_leak_spec(rng)
    plain = S.make_fns(sp)
    ids = S.node_ids(sp)
    n = len(ids)
    d, _e, _p = S.build_tawazi(sp, plain=plain)
    keys0 = set(d.results.keys())
    hist = []
    rp = {"kind": "rerun_job", "job": dict(jobref or {}, n_histories=hidx + 1), "source": S.render(sp)}
    nonce = [0]
    mc_cfg = [d.max_concurrency]  # what the user configured last: executions must not change it

    def fresh_args(partial=False):
        nonce[0] += 1
        a = [Sym("arg", hidx, nonce[0], "x")]
        if not partial:
            a.append(Sym("arg", hidx, nonce[0], "y"))
        return a

    def checked_call(label, args):
        ref = S.run_reference(sp, args, plain)
        B.reset_log()
        probes.reset_counts()
        res = probes.run_op(label, lambda: op_call(d, args))
        log = B.snapshot()
        ent, _v = observed(log)
        col.evaluations += 1
        col.counters["c15_checked_calls"] += 1
        rp2 = dict(rp, history=S.jsonable(hist))
        col.generic(log, rp2)
        if ref[0] != "ok":
            return
        if res[0] != "ok":
            col.violation(pid, "call_after_history_raised", dict(exc=repr(res[1])[:300], history=S.jsonable(hist), source=S.render(sp)), rp2)
            return
        if not same(ref[1].result, res[1]):
            col.violation(pid, "call_outcome_depends_on_earlier_history", dict(
                expected=short(ref[1].result, 400), got=short(res[1], 400), history=S.jsonable(hist), source=S.render(sp)), rp2)
        exp = {ids[i] for i in range(n) if ref[1].active.get(i)}
        if set(ent) != exp or any(c != 1 for c in ent.values()):
            col.violation(pid, "call_executed_set_depends_on_earlier_history", dict(
                executed=sorted(ent.items()), expected=sorted(exp), history=S.jsonable(hist), source=S.render(sp)), rp2)
        if d.max_concurrency != mc_cfg[0]:
            col.violation(pid, "dag_max_concurrency_changed_by_an_earlier_execution", dict(
                configured=mc_cfg[0], now=d.max_concurrency, history=S.jsonable(hist), source=S.render(sp)), rp2)
        if set(d.results.keys()) != keys0:
            col.violation(pid, "dag_level_results_gained_or_lost_keys", dict(
                gained=sorted(set(d.results.keys()) - keys0)[:5], lost=sorted(keys0 - set(d.results.keys()))[:5], history=S.jsonable(hist)), rp2)

    def run_executor_twice(fail_first):
        ts = rng.sample(range(n), rng.randint(1, min(3, n)))
        kw = {"target_nodes": [ids[i] for i in ts]}
        sel = S.closure(sp, None, None, ts)
        ex = d.executor(**kw)
        args1 = fresh_args()

        async def a1():
            return await ex(*args1)

        ref1 = S.run_reference(sp, args1, plain, enabled=sel)
        if ref1[0] != "ok":
            return
        fault = None
        if fail_first:
            cands = [ids[i] for i in sel if ref1[1].active.get(i)]
            if not cands:
                return
            fault = rng.choice(cands)
            probes.State.faults = {fault}
            probes.State.fault_base = rng.random() < 0.4  # a failure tawazi does not wrap (BaseException subclass)
        B.reset_log()
        try:
            r1 = probes.run_op("executor_run_1", lambda: do(d, lambda: ex(*args1), a1))
        finally:
            probes.State.faults = set()
            fb = probes.State.fault_base
            probes.State.fault_base = False
        hist.append(("executor_first_run", S.jsonable(kw), ("fails at %s%s" % (fault, " with a BaseException" if fb else "")) if fault else "ok"))
        if fail_first and r1[0] == "ok":
            return
        if not fail_first and r1[0] != "ok":
            col.violation(pid, "executor_first_run_raised", dict(exc=repr(r1[1])[:300], selection=S.jsonable(kw), source=S.render(sp)), rp)
            return
        args2 = fresh_args()
        needs_x = any(a == ["p", "x"] for i in sel for a in list(sp["nodes"][i]["args"]) + list(sp["nodes"][i]["kwargs"].values()) + [sp["nodes"][i]["active"]])
        if needs_x and rng.random() < 0.3:
            args2 = []  # the required argument (needed by the selection) is missing: this call cannot return normally

        async def a2():
            return await ex(*args2)

        ref2 = S.run_reference(sp, args2, plain, enabled=sel)
        B.reset_log()
        probes.reset_counts()
        r2 = probes.run_op("executor_run_2", lambda: do(d, lambda: ex(*args2), a2))
        log = B.snapshot()
        ent, _v = observed(log)
        col.evaluations += 1
        col.counters["c15_executor_reruns_after_%s" % ("failure" if fail_first else "success")] += 1
        hist.append(("executor_second_run", "raised %s" % type(r2[1]).__name__ if r2[0] != "ok" else "returned"))
        rp2 = dict(rp, history=S.jsonable(hist))
        if r2[0] != "ok":
            if isinstance(r2[1], TawaziUsageError):
                col.counters["c15_rerun_refused"] += 1
                return
            if not args2 and isinstance(r2[1], TawaziArgumentException):
                col.counters["c15_rerun_without_required_argument_rejected"] += 1
                return
            col.violation(pid, "executor_rerun_raised_internal_error", dict(exc=repr(r2[1])[:300], after="failure" if fail_first else "success",
                                                                           selection=S.jsonable(kw), source=S.render(sp)), rp2)
            return
        col.counters["c15_rerun_ran"] += 1
        if not args2:
            col.violation(pid, "executor_rerun_used_partially_consumed_graph", dict(
                after="failure" if fail_first else "success", note="second call WITHOUT the required argument returned normally: it can only "
                "have returned what the first run left behind", got=short(r2[1], 300), selection=S.jsonable(kw), source=S.render(sp)), rp2)
            return
        if ref2[0] != "ok":
            return
        exp = {ids[i] for i in sel if ref2[1].active.get(i)}
        if set(ent) != exp or not same(ref2[1].result, r2[1]):
            col.violation(pid, "executor_rerun_used_partially_consumed_graph", dict(
                after="failure" if fail_first else "success", executed=sorted(ent), complete_selection=sorted(exp),
                expected=short(ref2[1].result, 300), got=short(r2[1], 300), selection=S.jsonable(kw), source=S.render(sp)), rp2)

    # (one history in twenty is LONG: 30 .. 140 operations on one object - the 10th, the 33rd, the 129th call / executor / reload
    # is the same as the first)
    long_hist = rng.random() < 0.05
    if long_hist:
        col.counters["c15_long_histories"] += 1
    for _step in range(rng.choice([30, 70, 140]) if long_hist else rng.randint(2, 8)):
        op = rng.choice(["call", "call_partial", "exec_ok", "exec_create", "compose", "config", "fail_node", "missing_arg", "surplus_arg",
                         "exec_retry_after_failure", "exec_rerun_after_success"])
        if op == "call":
            hist.append(("call", "full args"))
            checked_call("call", fresh_args())
        elif op == "call_partial":
            hist.append(("call", "defaulted y omitted"))
            checked_call("call_partial", fresh_args(partial=True))
        elif op == "exec_ok":
            ts = rng.sample(range(n), rng.randint(1, min(3, n)))
            args = fresh_args()
            r = probes.run_op("exec", lambda: op_exec(d, {"target_nodes": [ids[i] for i in ts]}, args))
            hist.append(("executor", [ids[i] for i in ts], r[0]))
        elif op == "exec_create":
            d.executor(target_nodes=[ids[rng.randrange(n)]])
            hist.append(("executor_created_not_run",))
        elif op == "compose":
            outs = [ids[i] for i in rng.sample(range(n), rng.randint(1, 2))]
            ins = ... if rng.random() < 0.4 else [ids[i] for i in rng.sample(range(n), rng.randint(0, 2)) if ids[i] not in outs] + ["prog>!>x", "prog>!>y"]
            try:
                with warnings.catch_warnings():
                    warnings.simplefilter("ignore")
                    c = d.compose("cmp%d" % nonce[0], ins, outs)
                args = fresh_args() if ins is ... else [Sym("in", hidx, nonce[0], q) for q in range(len(ins))]
                r = probes.run_op("composed", lambda: op_call(c, args))
                hist.append(("compose+run", "..." if ins is ... else ins, outs, r[0]))
            except ValueError as e:
                hist.append(("compose", "..." if ins is ... else ins, outs, "ValueError %s" % str(e)[:40]))
            except BaseException as e:  # noqa: BLE001
                if isinstance(e, (KeyboardInterrupt, SystemExit)):
                    raise
                hist.append(("compose", "..." if ins is ... else ins, outs, "raised %s" % type(e).__name__))
        elif op == "config":
            i = rng.randrange(n)
            conf = {"nodes": {ids[i]: {"priority": rng.randint(-3, 9)}}, "max_concurrency": rng.randint(1, 4)}
            try:
                d.config_from_dict(conf)
                hist.append(("config_from_dict", conf))
                mc_cfg[0] = conf["max_concurrency"]
            except ValueError as e:
                hist.append(("config_from_dict", "ValueError %s" % str(e)[:40]))
        elif op == "fail_node":
            args = fresh_args()
            ref = S.run_reference(sp, args, plain)
            if ref[0] != "ok":
                continue
            cands = [ids[i] for i in range(n) if ref[1].active.get(i)]
            if not cands:
                continue
            f = rng.choice(cands)
            probes.State.faults = {f}
            try:
                r = probes.run_op("failing_call", lambda: op_call(d, args))
            finally:
                probes.State.faults = set()
            hist.append(("failing_call", f, r[0]))
        elif op == "missing_arg":
            r = probes.run_op("missing_arg", lambda: op_call(d, []))
            hist.append(("call_missing_required_arg", "raised %s" % type(r[1]).__name__ if r[0] != "ok" else "ok"))
            if r[0] == "ok" or not isinstance(r[1], TawaziArgumentException):
                col.counters["c15_missing_arg_not_argument_exception"] += 1
        elif op == "surplus_arg":
            r = probes.run_op("surplus_arg", lambda: op_call(d, fresh_args() + [1]))
            hist.append(("call_surplus_arg", "raised %s" % type(r[1]).__name__ if r[0] != "ok" else "ok"))
        elif op == "exec_retry_after_failure":
            run_executor_twice(True)
        elif op == "exec_rerun_after_success":
            run_executor_twice(False)
    hist.append(("final_call",))
    checked_call("final_call", fresh_args(partial=rng.random() < 0.4))
    col.hashes.add(S.spec_hash({"s": S.render(sp), "h": S.jsonable(hist)}))
    if hidx % 40 == 0:
        col.sample(dict(source=S.render(sp), history=S.jsonable(hist), is_async=sp["is_async"]))


@job("hist15")
def job_hist15(j):
    rng = random.Random(j["seed"])
    col = Collector()
    if j.get("leak_only"):
        # only the clause about setup nodes fed by a DAG argument (re-used by other properties' checks)
        for _ in range(j["n_histories"]):
            c15_setup_fed_by_argument(col, rng, jobref=j)
        return col.result()
    for h in range(j["n_histories"]):
        c15_history(col, rng, h, jobref=j)
    c15_setup_fed_by_argument(col, rng, jobref=j)
    return col.result()


def _replay_c15(j, rp):
    col = Collector(max_per_mech=20)
    rng = random.Random(5)
    for h in range(60):
        c15_history(col, rng, h)
    return col.result()


REGISTRY["replay:c15_case"] = _replay_c15


# ------------------------------------------------------------------------------------------------ C18
MODEL_FREE_18 = ["setup_result_taken_from_the_cache_file_was_not_kept_by_the_instance", "cache_file_lacks_results_of_the_execution_that_wrote_it", "caching_run_raised", "cache_file_unreadable", "restart_from_cache_raised", "restart_recomputed_cached_nodes",
                 "restart_from_recached_file_raised", "recached_file_unreadable", "restart_without_cache_file_returned_normally", "setup_raised"]


def c18_case(col, rng, cidx, tmpdir, jobref=None):
    from tawazi.config import cfg

    old = cfg.RUN_DEBUG_NODES
    try:
        return _c18_case(col, rng, cidx, tmpdir, jobref)
    finally:
        cfg.RUN_DEBUG_NODES = old


def _c18_case(col, rng, cidx, tmpdir, jobref=None):
    pid = (jobref or {}).get("pid", "C18")
    col = _Filtered(col, (jobref or {}).get("only"))
    from .sched import gen_shape

    sp = gen_shape(rng, nmin=3, nmax=7, flags=False, reuse=True, mc_max=3, const_objects=0.0)  # (cached values must be picklable)
    sp["is_async"] = rng.random() < 0.3
    if rng.random() < 0.35:
        # results that are ONE object (a function that validates its input and hands it on) and consumers that get both: what is
        # one object in the caching run is one object again after the restart
        indexed = {a[1] for m in sp["nodes"] for a in list(m["args"]) + list(m["kwargs"].values()) + ([m["active"]] if m.get("active") else [])
                   if a[0] == "n" and a[2]}
        indexed |= {a[1] for a in sp["ret"][1] if a[0] == "n" and a[2]}
        for fn in sorted(sp["fns"]):
            fs = sp["fns"][fn]
            sites = [i for i, nd in enumerate(sp["nodes"]) if nd["fn"] == fn]
            if fs.get("shape") is not None or any(i in indexed for i in sites):
                continue
            deps = [a[1] for i in sites for a in list(sp["nodes"][i]["args"]) + list(sp["nodes"][i]["kwargs"].values()) if a[0] == "n" and not a[2]]
            if any(sp["fns"][sp["nodes"][q]["fn"]].get("shape") in (["handle"], ["same"]) for q in deps) and rng.random() < 0.6:
                fs["shape"] = ["same"]
            elif rng.random() < 0.4:
                fs["shape"] = ["handle"]
        col.counters["c18_cases_with_results_that_are_one_object"] += 1
    dflt18 = rng.random() < 0.3
    if dflt18:
        sp["defaults"] = {"x": "default-of-x"}  # the DAG input has a default: a restart may be called without it
    if rng.random() < 0.3 and sp["ret"][0] in ("tuple", "list"):
        # the DAG also returns constants and / or its own argument: results of their own in the file (under ids of their own)
        for extra in rng.sample([["c", 5], ["c", "k"], ["p", "x"], ["c", None]], rng.randint(1, 2)):
            sp["ret"][1].insert(rng.randint(0, len(sp["ret"][1])), extra)
        col.counters["c18_cases_returning_constants_or_arguments"] += 1
    g = S.site_graph(sp)
    # some setup nodes (ancestor closed, no DAG argument): their results are part of the cache file too
    setup18 = set()
    for i, nd in enumerate(sp["nodes"]):
        uses_param = any(a[0] == "p" for a in nd["args"])
        reused = sum(1 for m in sp["nodes"] if m["fn"] == nd["fn"]) > 1
        if not uses_param and not reused and all(q in setup18 for q in g.predecessors(i)) and rng.random() < 0.2:
            setup18.add(i)
            sp["fns"][nd["fn"]]["setup"] = True
    if rng.random() < 0.15:
        # debug nodes (sinks) with RUN_DEBUG_NODES on for the whole case: cache files may then hold results that are not an
        # ancestor-closed set.  Only the clauses that need no closure model are judged here: nothing raises, and no node whose
        # result is in the file runs again.
        from tawazi.config import cfg

        dbg_sites = [i for i in range(len(sp["nodes"])) if g.out_degree(i) == 0 and i not in setup18
                     and sum(1 for m_ in sp["nodes"] if m_["fn"] == sp["nodes"][i]["fn"]) == 1 and rng.random() < 0.7]
        if dbg_sites:
            for i in dbg_sites:
                sp["fns"][sp["nodes"][i]["fn"]]["debug"] = True
            cfg.RUN_DEBUG_NODES = True
            col = _Filtered(col, MODEL_FREE_18)
            col.counters["c18_cases_with_debug_nodes_on"] += 1
    plain = {name: probes.mkprobe(name, shape=tuple(fs["shape"]) if fs.get("shape") else None) for name, fs in sp["fns"].items()}
    ids = S.node_ids(sp)
    n = len(ids)
    if rng.random() < 0.35:
        # tags: shared between functions, or spelled exactly like the id of a node of ANOTHER function (a tag wins: that string
        # denotes the tagged nodes).  The selections below are then spelled with tags, ids and node references
        for fn in sorted(sp["fns"]):
            if rng.random() < 0.5:
                foreign = [x for q, x in enumerate(ids) if sp["nodes"][q]["fn"] != fn]
                sp["fns"][fn]["tag"] = rng.choice(["T", "m_1"] + ([rng.choice(foreign)] * 3 if foreign else []))
        col.counters["c18_cases_with_tags"] += 1
    tg18 = tags_by_site(sp)

    def plan18(sites, allow_tags):
        """How a selection is spelled: [(kind, what)], and the call sites it denotes."""
        out, den = [], set()
        for i in sites:
            if allow_tags and i in tg18 and rng.random() < 0.4:
                out.append(("tag", tg18[i]))
                den |= {q for q, t in tg18.items() if t == tg18[i]}
            elif ids[i] in tg18.values() or rng.random() < 0.25:
                out.append(("node", i))  # (an id that is also somebody's tag can only be named by reference)
                den.add(i)
                if ids[i] in tg18.values():
                    col.counters["c18_selections_naming_by_reference_a_node_whose_id_is_also_a_tag"] += 1
            else:
                out.append(("id", i))
                den.add(i)
        return out, sorted(den)

    def spell18(dag_obj, plan):
        return [w if k == "tag" else (ids[w] if k == "id" else dag_obj.get_node_by_id(ids[w])) for k, w in plan]

    # (the source is a script in the caching run - its functions live in `__main__` - and an imported module in the restart)
    mods18 = ("__main__", "pipeline_module") if rng.random() < 0.5 else ("pipeline_module", "pipeline_module")
    d, _e, _p = S.build_tawazi(sp, plain=plain, extra_env={"__name__": mods18[0]})
    path = os.path.join(tmpdir, "c%d.pkl" % cidx)
    inst_setup = {}  # id(DAG instance) -> {setup site: value computed on that instance} (setup results survive on the instance)

    def rec(inst, lg):
        m = inst_setup.setdefault(id(inst), {})
        for e in lg:
            if e["kind"] == "FEXIT" and e.get("ok") and e["node"] in ids and ids.index(e["node"]) in setup18:
                m.setdefault(ids.index(e["node"]), e["value"])

    def rec_from_file(inst, content):
        """setup results found in a cache file an execution started from are promoted to the instance as well"""
        m = inst_setup.setdefault(id(inst), {})
        for i in setup18:
            if ids[i] in content:
                m.setdefault(i, content[ids[i]])

    early = None
    if rng.random() < 0.15:
        # a restart executor created (and called once, in vain) BEFORE the cache file exists - e.g. a polling consumer
        try:
            early = d.executor(from_cache=path)
        except BaseException as e:  # noqa: BLE001
            if isinstance(e, (KeyboardInterrupt, SystemExit)):
                raise
            col.counters["c18_restart_executor_refused_at_construction:%s" % type(e).__name__] += 1
            early = None
    if early is not None:
        re0 = probes.run_op("restart_before_file_exists", lambda: do(d, lambda: early(Sym("arg", cidx)), lambda: _acall(early, [Sym("arg", cidx)])))
        col.counters["c18_restart_called_before_file_exists"] += 1
        if re0[0] == "ok":
            col.violation(pid, "restart_without_cache_file_returned_normally", dict(value=short(re0[1])), {"kind": "rerun_job", "job": dict(jobref or {}, n_cases=cidx + 1)})
            early = None
    args = [Sym("arg", cidx)]
    mode = rng.choice(["whole", "targets", "cache_deps_of"])
    kw1 = {"cache_in": path}
    if mode == "targets":
        ts = rng.sample(range(n), rng.randint(1, min(3, n)))
        plan1, ts = plan18(ts, True)
        kw1["target_nodes"] = spell18(d, plan1)
        sel1 = S.closure(sp, None, None, ts)
    elif mode == "cache_deps_of":
        nn = rng.sample(range(n), rng.randint(1, min(3, n)))
        # none of them may be an ancestor of another one (its result would have to be both cached and not cached)
        nn = [i for i in nn if not any(i in nx.ancestors(g, q) for q in nn if q != i)]
        plan1, _den = plan18(nn, False)
        kw1["cache_deps_of"] = spell18(d, plan1)
        sel1 = S.closure(sp, None, None, nn)
    else:
        sel1 = set(range(n))
    rp = {"kind": "rerun_job", "job": dict(jobref or {}, n_cases=cidx + 1), "source": S.render(sp), "caching": S.jsonable(kw1)}
    B.reset_log()
    r1 = probes.run_op("caching_run", lambda: op_exec(d, kw1, args))
    rec(d, B.snapshot())
    col.evaluations += 1
    if r1[0] != "ok":
        col.violation(pid, "caching_run_raised", dict(exc=repr(r1[1])[:300], caching=S.jsonable(kw1), source=S.render(sp)), rp)
        return
    try:
        with open(path, "rb") as f:
            cached = pickle.load(f)  # noqa: S301
    except Exception as e:  # noqa: BLE001
        col.violation(pid, "cache_file_unreadable", dict(exc=repr(e)[:200]), rp)
        return
    runnable1 = [ids[i] for i in sorted(sel1) if i not in inst_setup.get(id(d), {})]
    if runnable1 and rng.random() < 0.15:
        # a second caching run on the SAME path that FAILS half way (a node raises): what the successful run wrote stays usable
        probes.State.faults = {rng.choice(runnable1)}
        try:
            rf = probes.run_op("failing_caching_run_on_the_same_path", lambda: op_exec(d, kw1, [Sym("arg", cidx, "failing")]))
        finally:
            probes.State.faults = set()
        col.counters["c18_failing_caching_runs_on_an_existing_file:%s" % rf[0]] += 1
        if rf[0] == "exc":
            try:
                with open(path, "rb") as f:
                    cached = pickle.load(f)  # noqa: S301
            except Exception as e:  # noqa: BLE001
                col.violation(pid, "cache_file_unusable_after_a_failed_caching_run_on_the_same_path", dict(exc=repr(e)[:200], caching=S.jsonable(kw1), source=S.render(sp)), rp)
                return
    cached_sites = {i for i in range(n) if ids[i] in cached}
    col.counters["c18_cache_files"] += 1
    if mode != "cache_deps_of":
        lacking = sorted(ids[i] for i in sel1 if ids[i] not in cached)
        if lacking:
            col.violation(pid, "cache_file_lacks_results_of_the_execution_that_wrote_it", dict(lacking=lacking, caching=S.jsonable(kw1), source=S.render(sp)), rp)
    if mode == "cache_deps_of":
        anc = set()
        for i in nn:
            anc |= nx.ancestors(g, i)
        col.counters["c18_cache_deps_of_files"] += 1
        if len(nn) > 1:
            col.counters["c18_cache_deps_of_several_nodes"] += 1
        if not anc <= cached_sites or any(i in cached_sites for i in nn):
            col.violation(pid, "cache_deps_of_file_content_wrong", dict(
                n=[ids[i] for i in nn], file_has=sorted(ids[i] for i in cached_sites), ancestors=sorted(ids[i] for i in anc), source=S.render(sp)), rp)
    if early is not None:
        from tawazi.errors import TawaziUsageError

        B.reset_log()
        re1 = probes.run_op("restart_same_executor_after_file_was_written", lambda: do(d, lambda: early(*args), lambda: _acall(early, args)))
        _lge = B.snapshot()
        ente, _ve = observed(_lge)
        rec(d, _lge)
        if re1[0] == "ok":
            rec_from_file(d, cached)
        col.evaluations += 1
        if re1[0] != "ok":
            if not isinstance(re1[1], TawaziUsageError):
                col.violation(pid, "restart_from_cache_raised", dict(exc=repr(re1[1])[:300], executor_first_called_before_file_existed=True, source=S.render(sp)), rp)
        elif sorted(x for x in ente if x in cached):
            col.violation(pid, "restart_recomputed_cached_nodes", dict(recomputed=sorted(x for x in ente if x in cached),
                                                                      executor_first_called_before_file_existed=True, source=S.render(sp)), rp)
    # restart
    rmode = "cache_deps_of" if mode == "cache_deps_of" else rng.choice(["whole", "same", "targets"])
    kw2 = {"from_cache": path}
    d2, _e, _p = S.build_tawazi(sp, plain=plain, extra_env={"__name__": mods18[1]})  # "a later execution of the same DAG": a fresh process would rebuild it
    dd = d2 if rng.random() < 0.5 else d
    if rmode == "cache_deps_of":
        kw2["cache_deps_of"] = spell18(dd, plan1)
        sel2 = sel1
    elif rmode == "same" and mode == "targets":
        kw2["target_nodes"] = spell18(dd, plan1)
        sel2 = sel1
    elif rmode == "targets":
        ts = rng.sample(range(n), rng.randint(1, min(3, n)))
        plan2, ts = plan18(ts, True)
        kw2["target_nodes"] = spell18(dd, plan2)
        sel2 = S.closure(sp, None, None, ts)
    else:
        sel2 = set(range(n))
    recache = None
    if rng.random() < 0.25:
        # from_cache and cache_in together: the restart re-writes a cache file, from which a second restart must work too
        # ... possibly the very file it was started from (a pipeline that resumes and checkpoints in place)
        recache = path if rng.random() < 0.4 else os.path.join(tmpdir, "c%d_b.pkl" % cidx)
        if recache == path:
            col.counters["c18_restarts_rewriting_their_own_cache_file"] += 1
        kw2["cache_in"] = recache
    args2 = args
    if dflt18 and any(str(k).endswith(">!>x") for k in cached) and rng.random() < 0.7:
        # the file holds the value the input had in the caching run: the restart, called WITHOUT the (defaulted) argument,
        # continues that run - it returns the same value and hands the cached input to whatever still has to run
        args2 = []
        col.counters["c18_restarts_omitting_a_defaulted_cached_input"] += 1
    restart = lambda: op_exec(dd, kw2, args2)  # noqa: E731
    if setup18 and rng.random() < 0.3:
        # the restart executor is BUILT first, then the instance is set up, then the executor is called: what is already set
        # up by then is not run again
        exo = dd.executor(**kw2)
        B.reset_log()
        rs = probes.run_op("setup_after_restart_executor_was_built", lambda: op_setup(dd, {}))
        rec(dd, B.snapshot())
        col.counters["c18_restart_executors_built_before_setup"] += 1
        if rs[0] != "ok":
            col.violation(pid, "setup_raised", dict(exc=repr(rs[1])[:300], source=S.render(sp)), rp)
            return
        restart = lambda exo=exo: do(dd, lambda: exo(*args2), lambda: _acall(exo, args2))  # noqa: E731
    B.reset_log()
    probes.reset_counts()
    pre_dd = dict(inst_setup.get(id(dd), {}))
    r2 = probes.run_op("restart_run", restart)
    log = B.snapshot()
    ent, _v = observed(log)
    rec(dd, log)
    if r2[0] == "ok":
        rec_from_file(dd, cached)
    col.evaluations += 1
    col.counters["c18_restarts"] += 1
    rp2 = dict(rp, restart=S.jsonable(kw2))
    col.generic(log, rp2)
    if r2[0] != "ok":
        col.violation(pid, "restart_from_cache_raised", dict(exc=repr(r2[1])[:300], caching=S.jsonable(kw1), restart=S.jsonable(kw2), source=S.render(sp)), rp2)
        return
    recomputed = sorted(x for x in ent if x in cached)
    if recomputed:
        col.violation(pid, "restart_recomputed_cached_nodes", dict(recomputed=recomputed, cached=sorted(k for k in cached if k in ids),
                                                                  caching=S.jsonable(kw1), restart=S.jsonable(kw2), source=S.render(sp)), rp2)
    exp_run = {ids[i] for i in sel2 if i not in cached_sites and i not in pre_dd}
    if set(ent) != exp_run and not recomputed:
        col.violation(pid, "restart_executed_set_wrong", dict(executed=sorted(ent), expected=sorted(exp_run), caching=S.jsonable(kw1), restart=S.jsonable(kw2), source=S.render(sp)), rp2)
    if rmode == "cache_deps_of":
        col.counters["c18_cache_deps_of_restarts"] += 1
    # value: the un-cached reference for the restart's selection (cached values are the same terms: same arguments)
    ref = S.run_reference(sp, args, plain, enabled=sel2 | {i for i in cached_sites},
                          env_values={i: vv for i, vv in pre_dd.items() if i not in cached_sites})
    if ref[0] == "ok":
        col.counters["c18_value_checks"] += 1
        exp = ref[1].result
        if not same(exp, r2[1]):
            col.violation(pid, "restart_value_differs_from_uncached_run", dict(expected=short(exp, 300), got=short(r2[1], 300), caching=S.jsonable(kw1), restart=S.jsonable(kw2), source=S.render(sp)), rp2)
    if setup18 and r2[0] == "ok" and recache is None and rng.random() < 0.5:
        # a plain call on the instance the restart ran on: the setup nodes it has a value for by now (its own, or one found in the
        # cache file it was started from - both flavours record those) are not entered again
        known_setup = dict(inst_setup.get(id(dd), {}))
        B.reset_log()
        rc = probes.run_op("call_after_restart", lambda: op_call(dd, args))
        entc, _vc = observed(B.snapshot())
        rec(dd, B.snapshot())
        col.evaluations += 1
        col.counters["c18_plain_calls_after_a_restart"] += 1
        again = sorted(ids[i] for i in known_setup if ids[i] in entc)
        if rc[0] == "ok" and again:
            col.violation(pid, "setup_result_taken_from_the_cache_file_was_not_kept_by_the_instance", dict(
                entered_again=again, is_async=sp["is_async"], restart=S.jsonable(kw2), source=S.render(sp)), rp2)
    if recache is not None and r2[0] == "ok":
        kw3 = {k: v for k, v in kw2.items() if k not in ("cache_in", "from_cache")}
        kw3["from_cache"] = recache
        try:
            with open(recache, "rb") as f:
                cached2 = pickle.load(f)  # noqa: S301
        except Exception as e:  # noqa: BLE001
            col.violation(pid, "recached_file_unreadable", dict(exc=repr(e)[:200]), rp2)
            cached2 = None
        if cached2 is not None and rmode != "cache_deps_of":
            # "an execution wrote its results with cache_in": the file holds every node of this run's selection, computed or cached
            # (what the restart had loaded from the file it started from is part of its results too)
            lacking = sorted(ids[i] for i in (set(sel2) | set(cached_sites)) if ids[i] not in cached2)
            if lacking:
                col.violation(pid, "cache_file_lacks_results_of_the_execution_that_wrote_it", dict(
                    lacking=lacking, same_file_as_from_cache=(recache == path), restart=S.jsonable(kw2), source=S.render(sp)), rp2)
                cached2 = None
        if cached2 is not None:
            whole3 = False
            if rmode != "cache_deps_of" and rng.random() < 0.5:
                kw3 = {"from_cache": recache}  # the WHOLE DAG restarted from the file the (possibly partial) restart wrote
                whole3 = any(k_ in kw2 for k_ in ("target_nodes", "exclude_nodes", "root_nodes"))
            B.reset_log()
            r3 = probes.run_op("second_restart", lambda: op_exec(d2, kw3, args))
            _lg3 = B.snapshot()
            ent3, _v3 = observed(_lg3)
            rec(d2, _lg3)
            if r3[0] == "ok":
                rec_from_file(d2, cached2)
            col.evaluations += 1
            col.counters["c18_second_restarts_from_recached_file"] += 1
            if r3[0] != "ok":
                col.violation(pid, "restart_from_recached_file_raised", dict(exc=repr(r3[1])[:300], source=S.render(sp)), rp2)
            else:
                rec3 = sorted(x for x in ent3 if x in cached2)
                if rec3:
                    col.violation(pid, "restart_recomputed_cached_nodes", dict(recomputed=rec3, second_restart=True, source=S.render(sp)), rp2)
                if ref[0] == "ok" and rmode != "cache_deps_of" and not whole3 and not same(r2[1], r3[1]):
                    col.violation(pid, "restart_value_differs_from_uncached_run", dict(expected=short(r2[1], 300), got=short(r3[1], 300), second_restart=True, source=S.render(sp)), rp2)
    if rng.random() < 0.3 and r2[0] == "ok":
        # the same cache file is written again by a later caching run with OTHER arguments, and restarted from again
        args_b = [Sym("arg", cidx, "second")]
        kwb = {k: v for k, v in kw2.items() if k != "cache_in"}
        exb = None
        if rng.random() < 0.5:
            # the restart executor is BUILT while the file still holds the older run; it is STARTED after the file was rewritten
            try:
                exb = d2.executor(**kwb)
                col.counters["c18_restart_executors_built_before_the_file_was_rewritten"] += 1
            except BaseException as e:  # noqa: BLE001
                if isinstance(e, (KeyboardInterrupt, SystemExit)):
                    raise
                col.counters["c18_restart_executor_refused_at_construction:%s" % type(e).__name__] += 1
        B.reset_log()
        rb1 = probes.run_op("caching_run_same_path", lambda: op_exec(d2, kw1, args_b))
        rec(d2, B.snapshot())
        pre_b = dict(inst_setup.get(id(d2), {}))
        B.reset_log()
        if exb is not None:
            rb2 = probes.run_op("restart_run_same_path", lambda: do(d2, lambda: exb(*args_b), lambda: _acall(exb, args_b)))
        else:
            rb2 = probes.run_op("restart_run_same_path", lambda: op_exec(d2, kwb, args_b))
        entb, _vb = observed(B.snapshot())
        col.evaluations += 1
        col.counters["c18_same_path_rewritten_and_restarted"] += 1
        refb = S.run_reference(sp, args_b, plain, enabled=sel2 | {i for i in cached_sites},
                               env_values={i: vv for i, vv in pre_b.items() if i not in cached_sites})
        if rb1[0] == "ok" and refb[0] == "ok":
            if rb2[0] != "ok":
                col.violation(pid, "restart_from_cache_raised", dict(exc=repr(rb2[1])[:300], second_use_of_same_file=True, source=S.render(sp)), rp2)
            elif not same(refb[1].result, rb2[1]):
                col.violation(pid, "restart_returns_values_of_an_older_cache_file_content", dict(
                    differing=[("returned item %d" % q, short(a_, 120), short(b_, 120)) for q, (a_, b_) in enumerate(zip(refb[1].result, rb2[1])) if not same(a_, b_)][:3]
                    if isinstance(rb2[1], tuple) and isinstance(refb[1].result, tuple) else None,
                    expected=short(refb[1].result, 300), got=short(rb2[1], 300), caching=S.jsonable(kw1), restart=S.jsonable(kwb), source=S.render(sp)), rp2)
            elif sorted(x for x in entb if x in cached):
                col.violation(pid, "restart_recomputed_cached_nodes", dict(recomputed=sorted(x for x in entb if x in cached), second_use_of_same_file=True, source=S.render(sp)), rp2)
    col.hashes.add(S.spec_hash({"s": S.render(sp), "k1": {k: v for k, v in S.jsonable(kw1).items() if k != "cache_in"},
                                "k2": {k: v for k, v in S.jsonable(kw2).items() if k != "from_cache"}}))
    if sp["is_async"] and not setup18 and rng.random() < 0.5:
        # the caching run and the restart awaited one after the other in ONE event loop (a service that checkpoints and resumes)
        path3 = os.path.join(tmpdir, "c%d_loop.pkl" % cidx)
        a3 = [Sym("arg", cidx, "one-loop")]
        d3, _e, _p = S.build_tawazi(sp, plain=plain)

        async def both():
            ra = await d3.executor(cache_in=path3)(*a3)
            rb = await d3.executor(from_cache=path3)(*a3)
            return ra, rb

        B.reset_log()
        r3 = probes.run_op("caching_run_and_restart_in_one_event_loop", lambda: asyncio.run(both()))
        ent3 = Counter(e["node"] for e in B.snapshot() if e["kind"] == "FENTER")
        col.counters["c18_caching_run_and_restart_in_one_event_loop"] += 1
        if r3[0] != "ok":
            col.violation(pid, "restart_in_the_event_loop_of_the_caching_run_raised", dict(exc=repr(r3[1])[:300], source=S.render(sp)), rp)
        elif not same(r3[1][0], r3[1][1]) or any(c > 1 for c in ent3.values()):
            col.violation(pid, "restart_in_the_event_loop_of_the_caching_run_recomputed_or_differs", dict(
                caching_run=short(r3[1][0], 200), restart=short(r3[1][1], 200), entered_twice=sorted(k for k, c in ent3.items() if c > 1), source=S.render(sp)), rp)
    if cidx % 40 == 0:
        col.sample(dict(source=S.render(sp), caching={k: v for k, v in S.jsonable(kw1).items() if k != "cache_in"}, cache_file_keys=sorted(k for k in cached if k in ids),
                        restart={k: v for k, v in S.jsonable(kw2).items() if k != "from_cache"}, restart_executed=sorted(ent)))


@job("cache18")
def job_cache18(j):
    rng = random.Random(j["seed"])
    col = Collector()
    tmpdir = tempfile.mkdtemp(prefix="twzcache_")
    try:
        for c in range(j["n_cases"]):
            try:
                c18_case(col, rng, c, tmpdir, jobref=j)
            except Exception as e:  # noqa: BLE001
                # the monitor itself could not cope with what it observed: that case has no verdict (the other cases keep theirs)
                import traceback

                col.inconclusive.append("monitor error in case %d: %r\n%s" % (c, e, traceback.format_exc()[-1500:]))
    finally:
        shutil.rmtree(tmpdir, ignore_errors=True)
    return col.result()


def _replay_c18(j, rp):
    col = Collector(max_per_mech=20)
    rng = random.Random(7)
    tmpdir = tempfile.mkdtemp(prefix="twzcache_")
    try:
        for c in range(60):
            c18_case(col, rng, c, tmpdir)
    finally:
        shutil.rmtree(tmpdir, ignore_errors=True)
    return col.result()


REGISTRY["replay:c18_case"] = _replay_c18
