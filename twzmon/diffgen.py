"""Program generator for the differential checks (C01, C10, C17, C20): an IR rendered to SOURCE TEXT which is
exec-ed twice - names bound to xn(...)/dag(...) objects, and names bound to plain callables (DESIGN 2.2).

prog = {name, params, defaults, fns{fname: spec}, inner{iname: prog}, stmts[...], ret[kind, items], flagfree}
Every call statement uses a site-unique callable name `s<k>` so that the reference side knows which call
site executed; on the tawazi side all `s<k>` of one function are the same LazyExecNode (ids f, f<<1>>, ...).
"""
from __future__ import annotations

CONSTS = [0, 1, 2, "s", "", None, True, False, 3.5, (1, 2), 1e-12]
# (truthy floats that are "almost zero" - 1e-12, the smallest denormal, a rounding residue - are truthy)
FALSY_TRUTHY = [0, 1, "", "s", None, True, False, [], [0], (), 2.5, 1e-12, 5e-324, -1e-10, 0.0]


class Toggle:
    """A constant whose truthiness may change between the description of a DAG and each of its calls (a feature switch)."""

    def __init__(self, name):
        self.name = name
        self.on = False

    def __bool__(self):
        return self.on

    def __repr__(self):
        return self.name


class ThreadFlag:
    """A constant whose truthiness depends on WHERE it is looked at (a thread-local / context-dependent switch): plain Python
    evaluates an activation flag in the calling thread - the differential jobs always call from the thread that imported this
    module - and so does the scheduler; a pool worker would see the opposite."""

    def __init__(self, name, here):
        import threading

        self.name, self.here, self.owner = name, here, threading.get_ident()

    def __bool__(self):
        import threading

        return (threading.get_ident() == self.owner) == self.here

    def __repr__(self):
        return self.name


# names bound (to the same objects) in the tawazi environment and in the reference environment
from .sym import EQALL, Opaque  # noqa: E402

NAMED_CONSTS = {"OPQ0": Opaque("const", 0), "OPQ1": Opaque("const", 1), "MUT0": Toggle("MUT0"), "MUT1": Toggle("MUT1"), "EQALL": EQALL,
                "HERE": ThreadFlag("HERE", True), "ELSEWHERE": ThreadFlag("ELSEWHERE", False)}


def const_src(v):
    """Source text of a default / constant: ["__name__", N] stands for the named constant N (survives the JSON of a replay)."""
    if isinstance(v, (list, tuple)) and len(v) == 2 and v[0] == "__name__":
        return v[1]
    return repr(v)
TOGGLES = [NAMED_CONSTS["MUT0"], NAMED_CONSTS["MUT1"]]
BINOPS = ["+", "-", "*", "<", ">=", "==", "!=", "&", "|", "^", "//", "%", "<=", ">", "@", "**", "<<", ">>", "/"]
UNOPS = ["-", "+", "~", "abs"]
RES = ["thread", "thread", "async-thread", "main-thread"]


class Gen:
    def __init__(self, rng, feats):
        self.rng = rng
        self.f = feats
        self.counter = 0
        # programs with "touchy" values: results (and arguments) that may only be passed on - see sym.Touchy.  In such a program
        # every variable that might hold one (results of touchy functions, parameters, results of nested DAGs) stays out of the
        # positions where plain Python itself looks at the value: activation flags, and_ / or_ / not_, operators, indexes
        self.touchy = rng.random() < feats.get("touchy", 0.15)
        # "flat" programs: every call site takes only parameters and constants (one wide level of independent thread nodes)
        self.flat = rng.random() < feats.get("flat", 0.0)

    def fresh(self, pfx):
        self.counter += 1
        return "%s%d" % (pfx, self.counter)

    def fn_specs(self, nfn, pfx):
        rng = self.rng
        specs = {}
        for _ in range(nfn):
            name = self.fresh(pfx + "f")
            shape = rng.choice([None, None, None, ["tuple", rng.randint(1, 3)], ["list", 2], ["dict"], ["tdict"], ["lazy", 2]])
            if self.touchy and rng.random() < 0.35:
                shape = ["touchy"]
            elif rng.random() < self.f.get("lazy_rate", 0.0):
                shape = ["lazy", rng.randint(2, 4)]  # (workloads about flags: many flags that are short-lived temporaries)
            unpack = shape[1] if shape and shape[0] in ("tuple", "list") and rng.random() < 0.6 else None
            specs[name] = dict(
                shape=shape, unpack_to=unpack, priority=rng.choice([0, 0, 1, 5, -1, 3]),
                is_sequential=(not self.flat) and rng.random() < self.f.get("seq", 0.15), resource="thread" if self.flat else rng.choice(RES),
            )
        return specs

    def program(self, depth, name, allow_flags=True, is_inner=False, parent_specs=None, bad_ok=True):
        rng, f = self.rng, self.f
        specs = self.fn_specs(rng.randint(2, 5), name + "_")
        if parent_specs and rng.random() < f.get("share_fns", 0.0):
            # the inner DAG uses the very same decorated functions as the enclosing one: ids must not collide
            for k in rng.sample(sorted(parent_specs), rng.randint(1, len(parent_specs))):
                specs[k] = parent_specs[k]
        nparams = rng.randint(1 if is_inner else 0, 3)
        ndef = rng.randint(0, nparams)
        params = ["%s_x%d" % (name, i) for i in range(nparams)]
        defaults = {p: (["__name__", "EQALL"] if rng.random() < f.get("wildcard_defaults", 0.08) else rng.choice(CONSTS)) for p in params[nparams - ndef:]}
        prog = dict(name=name, params=params, defaults=defaults, fns=specs, inner={}, stmts=[], ret=None,
                    flagfree=True, depth=depth, touchy=self.touchy)
        # variables: name -> dict(shape, maybe_none, plain (known to be a term: usable in operators), elem (unpacked element))
        vars_ = {}
        for p in params:
            vars_[p] = dict(shape=None, maybe_none=False, plain=False, elem=False, param=True, touchy=self.touchy)
        vi = [0]
        site = [0]
        # (plain Python evaluates an argument expression even when the call is then deactivated, a DAG does not: bad indexes are
        # only written where no activation flag can skip the consumer)
        bad_now = [bad_ok]

        def newvar():
            vi[0] += 1
            return "%s_v%d" % (name, vi[0])

        def pick(allow_const=True, for_op=False, for_flag=False, whole=False, results_only=False, no_touchy=False):
            if for_flag and rng.random() < f.get("const_flag", 0.0):
                return repr(rng.choice(FALSY_TRUTHY))  # (workloads that stress CONSTANT flags: their helper nodes carry ids too)
            cands = []
            for v, info in vars_.items():
                if self.flat and not info.get("param"):
                    continue
                if for_op and (info["maybe_none"] or not info["plain"]):
                    continue
                if results_only and info.get("param"):
                    continue
                if (for_flag or no_touchy) and info.get("touchy"):
                    continue
                cands.append(v)
            if cands and (not allow_const or rng.random() < 0.78):
                v = rng.choice(cands)
                info = vars_[v]
                if info["maybe_none"] or whole:
                    return v
                sh = info["shape"]
                if for_flag:
                    forms = f.get("flag_forms", "all")
                    if forms == "whole":
                        return v
                if sh and not for_flag and bad_now[0] and rng.random() < f.get("bad_index", 0.02):
                    # a key / index that does not exist in that run: plain Python raises KeyError / IndexError at this statement,
                    # so the DAG call must raise too (the consumer is never handed a made-up value)
                    if sh[0] == "dict":
                        return '%s["missing"]' % v
                    if sh[0] in ("tuple", "list", "lazy"):
                        return "%s[%d]" % (v, sh[1] + 3)
                    if sh[0] == "tdict":
                        return '%s["r"]["nope"]' % v
                if sh and sh[0] == "dict" and rng.random() < 0.7:
                    return rng.choice(['%s["a"]' % v, '%s["b"][1]' % v, '%s["b"]' % v])
                if sh and sh[0] == "tdict" and rng.random() < 0.8:
                    # a table keyed by TUPLES: v["r", "c"] is one key, v["r"]["c"] is another entry
                    return rng.choice(['%s["r", "c"]' % v, '%s["r"]["c"]' % v, '%s[("r", "c")]' % v, '%s[1, 0]' % v, '%s[1][0]' % v])
                if sh and sh[0] in ("tuple", "list", "lazy") and rng.random() < (0.9 if sh[0] == "lazy" else 0.7):
                    return "%s[%d]" % (v, rng.randrange(sh[1]))
                if sh is None and info["plain"] and not info.get("elem") and rng.random() < f.get("index_plain", 0.12):
                    # indexing an opaque result: symbolic terms support it and half of them are falsy
                    return "%s[%r]" % (v, rng.choice([0, "k", 3]))
                return v
            if for_op:
                # numeric constants only: `'s' % x` is string formatting (a constant), not an operator node
                return repr(rng.choice([0, 1, 2, 3.5, True, -1]))
            if for_flag and rng.random() < f.get("toggles", 0.12):
                return rng.choice(["MUT0", "MUT1", "HERE", "ELSEWHERE"])  # constant flag whose truthiness is only known when (and where) the call runs
            if not for_flag and rng.random() < f.get("opaque_consts", 0.08):
                return rng.choice(["OPQ0", "OPQ1", "EQALL"])  # identity-sensitive, uncopyable constant / a wildcard that equals everything
            pool = FALSY_TRUTHY if for_flag else CONSTS
            return repr(rng.choice(pool))

        nst = rng.randint(1, f.get("max_stmts", 9))
        used_inner = set()
        whole_containers = []  # results of nested DAG calls that are python containers of results
        for _ in range(nst):
            r = rng.random()
            if self.flat:
                r = 0.5  # (flat programs: plain call sites only - no operators, no and_/or_/not_, no nested calls)
            opable = [v for v, i in vars_.items() if i["plain"] and not i["maybe_none"]]
            if r < f.get("ops", 0.15) and opable:
                t = newvar()
                if rng.random() < 0.15:
                    prog["stmts"].append(dict(t=[t], op="un", sym=rng.choice(UNOPS), a=pick(False, for_op=True)))
                else:
                    a = pick(False, for_op=True)
                    b = pick(True, for_op=True) if rng.random() < 0.6 else repr(rng.choice([0, 1, 2, 3.5]))
                    if rng.random() < 0.3:
                        a, b = b, a
                    prog["stmts"].append(dict(t=[t], op="bin", sym=rng.choice(BINOPS), a=a, b=b))
                vars_[t] = dict(shape=None, maybe_none=False, plain=True, elem=False)
                continue
            if r < f.get("ops", 0.15) + f.get("bools", 0.08) and vars_:
                t = newvar()
                fn = rng.choice(["and_", "or_", "not_"])
                nt = self.touchy
                if nt and not any(not i.get("touchy") for i in vars_.values()):
                    continue
                args = [pick(False, no_touchy=nt)] if fn == "not_" else [pick(False, no_touchy=nt), pick(no_touchy=nt)]
                prog["stmts"].append(dict(t=[t], op="bool", fn=fn, args=args))
                vars_[t] = dict(shape=None, maybe_none=True, plain=False, elem=False)
                continue
            if depth > 0 and r > 1.0 - f.get("nest", 0.0):
                iname = self.fresh(name + "_in")
                if f.get("prefix_inner", 0.3) > rng.random() and len(prog["inner"]) < 4:
                    # inner DAGs whose names are prefixes of each other, the LONGER name nested first (stage11 before stage1)
                    iname = "%s_inn%s" % (name, "1" * (4 - len(prog["inner"])))
                flagged = allow_flags and rng.random() < f.get("nest_flag", 0.0)
                ip = self.program(depth - 1, iname, allow_flags=(not flagged) and allow_flags and rng.random() < 0.5, is_inner=True,
                                  parent_specs=specs, bad_ok=bad_ok and not flagged)
                if flagged and not ip["flagfree"]:
                    flagged = False
                if rng.random() < f.get("same_name_inner", 0.3):
                    # inner DAG functions made by factories: every one of them is called `stage`, only the QUALIFIED names differ
                    ip["pyname"] = "stage"
                    ip["qualname"] = "make_%s.<locals>.stage" % iname
                prog["inner"][iname] = ip
                nreq = len(ip["params"]) - len(ip["defaults"])
                na = rng.randint(nreq, len(ip["params"]))
                bad_now[0] = bad_ok and not flagged
                args = [pick() for _ in range(na)]
                bad_now[0] = bad_ok
                st = dict(op="dag", name=iname, args=args, active=None, t=[])
                if flagged:
                    st["active"] = pick(for_flag=True)
                    prog["flagfree"] = False
                if not ip["flagfree"]:
                    prog["flagfree"] = False
                kind, items = ip["ret"]
                mn = flagged
                if kind in ("tuple", "list") and len(items) >= 1 and rng.random() < 0.5:
                    ts = [newvar() for _ in items]
                    st["t"] = ts
                    st["unpack"] = len(ts)
                    for t, it in zip(ts, items):
                        vars_[t] = dict(shape=None, maybe_none=True, plain=False, elem=True, touchy=self.touchy)
                else:
                    t = newvar()
                    st["t"] = [t]
                    st["unpack"] = 0
                    if kind in ("tuple", "list", "dict"):
                        whole_containers.append(t)
                    # the value is a python container of results: only usable whole or by a static index
                    vars_[t] = dict(shape=None, maybe_none=True, plain=False, elem=False, container=(kind, items if kind != "dict" else list(items)),
                                    touchy=self.touchy)
                    if kind in ("tuple", "list", "dict") and not mn:
                        # expose elements as separate "variables" through static indexing
                        keys = list(range(len(items))) if kind != "dict" else list(items)
                        for k in keys[:3]:
                            vars_["%s[%r]" % (t, k)] = dict(shape=None, maybe_none=True, plain=False, elem=True, touchy=self.touchy)
                        del vars_[t]
                    elif kind in ("tuple", "list", "dict"):
                        # flagged: dead value is a container of None - usable only as a static element
                        keys = list(range(len(items))) if kind != "dict" else list(items)
                        for k in keys[:3]:
                            vars_["%s[%r]" % (t, k)] = dict(shape=None, maybe_none=True, plain=False, elem=True, touchy=self.touchy)
                        del vars_[t]
                    elif kind == "none":
                        del vars_[t]
                    elif kind == "single" and not mn and ip.get("ret_plain"):
                        # the inner DAG returns ONE opaque result: the outer DAG may index it again and use it in operators
                        # (the key path grows in the outer DAG only)
                        vars_[t] = dict(shape=None, maybe_none=False, plain=True, elem=False, touchy=False)
                prog["stmts"].append(st)
                used_inner.add(iname)
                continue
            # plain call site
            will_flag = allow_flags and rng.random() < f.get("flags", 0.3)
            names = list(specs)
            fname = rng.choice(names)
            sp = specs[fname]
            if sp["unpack_to"]:
                will_flag = False  # unpacking the None of a deactivated call is outside the fragment (DESIGN 6.9)
            bad_now[0] = bad_ok and not will_flag
            args = [pick() for _ in range(rng.randint(0, 3))]
            kws = {"k%d" % j: pick() for j in range(rng.randint(0, 2))} if rng.random() < f.get("kwargs", 0.5) else {}
            bad_now[0] = bad_ok
            st = dict(op="call", fn=fname, args=args, kwargs=kws, active=None, tag=None, site=site[0], t=[])
            site[0] += 1
            if will_flag:
                st["active"] = pick(for_flag=True)
                prog["flagfree"] = False
            if rng.random() < 0.1:
                st["tag"] = "t%d" % site[0]
            call_unpack = None
            if (not sp["unpack_to"] and not will_flag and sp["shape"] and sp["shape"][0] in ("tuple", "list")
                    and rng.random() < f.get("call_unpack", 0.3)):
                call_unpack = sp["shape"][1]  # twz_unpack_to given at the call site
                st["call_unpack"] = call_unpack
            if sp["unpack_to"] or call_unpack:
                ts = [newvar() for _ in range(sp["unpack_to"] or call_unpack)]
                st["t"] = ts
                for t in ts:
                    vars_[t] = dict(shape=None, maybe_none=will_flag, plain=not will_flag, elem=True)
            else:
                t = newvar()
                st["t"] = [t]
                vars_[t] = dict(shape=sp["shape"], maybe_none=will_flag, plain=(not will_flag and sp["shape"] is None), elem=False,
                                touchy=bool(sp["shape"]) and sp["shape"][0] == "touchy")
            prog["stmts"].append(st)
        # return
        # (an inner DAG may hand one of its REQUIRED parameters straight through: a pass-through output - None when the nested
        # call is deactivated, like every other output; defaulted parameters stay excluded, DESIGN 6)
        rvars = [v for v, i in vars_.items() if not (is_inner and i.get("param") and (v in defaults or not f.get("pass_through", True)))]

        def rpick():
            if rvars and (is_inner or rng.random() < 0.85):
                v = rng.choice(rvars)
                info = vars_[v]
                sh = info["shape"]
                if not info["maybe_none"] and sh and sh[0] in ("tuple", "list", "lazy") and rng.random() < 0.5:
                    return "%s[%d]" % (v, rng.randrange(sh[1]))
                return v
            return repr(rng.choice(CONSTS))

        rk = rng.random()
        if is_inner and not rvars:
            # an inner DAG must return node results: add one call
            fname = self.fresh(name + "_f")
            specs[fname] = dict(shape=None, unpack_to=None, priority=0, is_sequential=False, resource="thread")
            t = newvar()
            prog["stmts"].append(dict(op="call", fn=fname, args=[params[0]] if params else [], kwargs={}, active=None, tag=None, site=site[0], t=[t]))
            vars_[t] = dict(shape=specs[fname]["shape"], maybe_none=False, plain=False, elem=False)
            rvars = [t]
        if whole_containers and not is_inner and rng.random() < 0.3:
            # pass the tuple / list / dict returned by a nested DAG on as the outer return value (type-strict comparison)
            prog["ret"] = ["single", [rng.choice(whole_containers)]]
        elif rk < 0.08 and not is_inner:
            prog["ret"] = ["none", []]
        elif rk < 0.3:
            prog["ret"] = ["single", [rpick()]]
            base_ = prog["ret"][1][0].split("[")[0]
            info_ = vars_.get(base_) or vars_.get(prog["ret"][1][0])
            prog["ret_plain"] = bool(info_ and info_.get("plain") and not info_.get("maybe_none") and not info_.get("touchy"))
            if info_ and "[" in prog["ret"][1][0] and (info_.get("shape") or [None])[0] in ("tuple", "list") and not info_.get("maybe_none"):
                prog["ret_plain"] = True  # an ELEMENT of a tuple / list result: an opaque term as well (the return value carries a key path)
        elif rk < 0.6:
            # (an inner DAG nested only for its effects may return an EMPTY tuple / list / dict: still a container, not "nothing")
            empty = rng.random() < f.get("empty_returns", 0.06)
            prog["ret"] = ["tuple", [rpick() for _ in range(0 if empty else rng.randint(1, 4))]]
        elif rk < 0.8:
            prog["ret"] = ["list", [rpick() for _ in range(0 if rng.random() < f.get("empty_returns", 0.06) else rng.randint(1 if is_inner else 0, 3))]]
        else:
            prog["ret"] = ["dict", {"r%d" % j: rpick() for j in range(0 if rng.random() < f.get("empty_returns", 0.06) else rng.randint(1, 3))}]
        return prog


def render(prog, strip_flags=False, indent=""):
    """Source of this program (inner DAG programs are rendered separately, see all_sources)."""
    sig = ", ".join(p if p not in prog["defaults"] else "%s=%s" % (p, const_src(prog["defaults"][p])) for p in prog["params"])
    L = ["def %s(%s):" % (prog["name"], sig)]
    for st in prog["stmts"]:
        if st["op"] == "bin":
            L.append("    %s = %s %s %s" % (st["t"][0], st["a"], st["sym"], st["b"]))
        elif st["op"] == "un":
            L.append("    %s = %s" % (st["t"][0], ("abs(%s)" % st["a"]) if st["sym"] == "abs" else st["sym"] + st["a"]))
        elif st["op"] == "bool":
            L.append("    %s = %s(%s)" % (st["t"][0], st["fn"], ", ".join(st["args"])))
        elif st["op"] == "dag":
            parts = list(st["args"])
            if st["active"] is not None and not strip_flags:
                parts.append("twz_active=%s" % st["active"])
            lhs = ", ".join(st["t"]) + ("," if st.get("unpack") == 1 else "") if st.get("unpack") else st["t"][0]
            L.append("    %s = %s(%s)" % (lhs, st["name"], ", ".join(parts)))
        else:
            parts = list(st["args"]) + ["%s=%s" % kv for kv in st["kwargs"].items()]
            if st["active"] is not None and not strip_flags:
                parts.append("twz_active=%s" % st["active"])
            if st["tag"] is not None:
                parts.append("twz_tag=%r" % st["tag"])
            if st.get("call_unpack"):
                parts.append("twz_unpack_to=%d" % st["call_unpack"])
            lhs = ", ".join(st["t"]) + ("," if len(st["t"]) == 1 and (prog["fns"][st["fn"]]["unpack_to"] or st.get("call_unpack")) else "")
            L.append("    %s = %s_s%d(%s)" % (lhs, prog["name"], st["site"], ", ".join(parts)))
    kind, items = prog["ret"]
    if kind == "none":
        L.append("    return None")
    elif kind == "single":
        L.append("    return %s" % items[0])
    elif kind == "tuple":
        L.append("    return (%s)" % "".join(i + ", " for i in items))
    elif kind == "list":
        L.append("    return [%s]" % ", ".join(items))
    else:
        L.append("    return {%s}" % ", ".join("%r: %s" % kv for kv in items.items()))
    return "\n".join(L) + "\n"


def all_sources(prog, strip_flags=False):
    out = []
    for ip in prog["inner"].values():
        out.extend(all_sources(ip, strip_flags))
    out.append(render(prog, strip_flags))
    return out


def dead_value(prog):
    kind, items = prog["ret"]
    if kind in ("none", "single"):
        return None
    if kind == "tuple":
        return tuple(None for _ in items)
    if kind == "list":
        return [None for _ in items]
    return {k: None for k in items}


def local_ids(prog):
    """site index -> node id local to this DAG (f, f<<1>>, ...)."""
    seen = {}
    out = {}
    for st in prog["stmts"]:
        if st["op"] == "call":
            k = seen.get(st["fn"], 0)
            seen[st["fn"]] = k + 1
            out[st["site"]] = st["fn"] if k == 0 else "%s<<%d>>" % (st["fn"], k)
    return out
