"""Boundary instrumentation + schedule controller (DESIGN.md section 2.1 / 2.3 / 2.4).

Nothing in /repo is edited.  `install()` patches the *stdlib boundary* the scheduler talks to
(ThreadPoolExecutor, concurrent.futures.wait, asyncio.wait, asyncio Task) and must be called before
`import tawazi`; `install_tawazi_hooks()` is called after the import and wraps public class
attributes (ExecNode.execute, StrictDict.__setitem__) and installs the scheduler step counter.

All events go to one in-memory log (LOG) under one lock with a global sequence number.
"""
from __future__ import annotations

import asyncio
import concurrent.futures as cf
import concurrent.futures._base as cfb
import concurrent.futures.thread as cft
import contextvars
import itertools
import random
import sys
import threading
import weakref
import time
from collections import Counter

LOG: list = []
LOCK = threading.RLock()
TLS = threading.local()
CTX: contextvars.ContextVar = contextvars.ContextVar("twz_token", default=None)
EXECS: dict = {}
REACH = Counter()  # how often each observation point was reached (zero => inconclusive)
_ids = itertools.count(1)
# the "request" of the client operation in progress (a ContextVar set by the harness before every operation): plain Python runs
# the functions in the caller's context, and tawazi documents that the context is propagated to the threads of async-thread nodes
REQ: contextvars.ContextVar = contextvars.ContextVar("twz_request", default=None)

FIRST_COMPLETED = cf.FIRST_COMPLETED
ALL_COMPLETED = cf.ALL_COMPLETED


class Settings:
    controlled = False  # park probes and choose completion orders
    chooser = None  # callable(ex, point, cands, others, rw) -> list of labels to release
    stress_sleep = 0.0  # upper bound of random sleep in probes when not controlled
    valve_s = 120.0  # safety valve: a parked probe waits at most this long
    settle_s = 60.0
    step_limit = 0  # scheduler loop iterations allowed per execution (0 = use default_step_limit)
    default_step_limit = 50000  # far above any finite DAG of the workloads (<= ~60 nodes): only a spin reaches it
    seed = 0
    inline_release = True


class SpinDetected(BaseException):
    """Raised inside the scheduler by the step counter (bounded progress, C09)."""


class DeadlockDetected(BaseException):
    """Raised inside a patched wait when nothing could ever complete a waited future (C09)."""


def ev(kind, **kw):
    with LOCK:
        kw["seq"] = len(LOG)
        kw["kind"] = kind
        kw["thread"] = kw.pop("thread_override", None) or threading.get_ident()
        LOG.append(kw)
        return kw["seq"]


_epoch = [0]


def reset_log():
    with LOCK:
        LOG.clear()
        for ex in list(EXECS.values()):
            ex.close()
        EXECS.clear()
        # nodes of an earlier, failed execution may still be finishing in the background: their events carry an
        # older token and are filtered out of later snapshots
        _epoch[0] = next(_ids)


def snapshot():
    with LOCK:
        ep = _epoch[0]
        return [e for e in LOG if e.get("token") is None or e["token"] >= ep]


class Exec:
    """Monitor-side state of one scheduler execution (= one ThreadPoolExecutor)."""

    def __init__(self, token, max_workers):
        self.token = token
        self.max_workers = max_workers or 1
        self.cv = threading.Condition()
        self.parked = {}
        self.body_done = set()
        self.fut_done = set()
        self.submitted = []
        self.futs = {}
        self.fut_node = {}
        self.task2fut = {}
        self.fut2task = {}
        self.tasks = {}
        self.sched_thread = threading.get_ident()
        try:
            self.sched_task = asyncio.current_task()
        except RuntimeError:
            self.sched_task = None
        self.closed = False
        self.bypassed = False
        self.steps = 0
        self.rng = random.Random((Settings.seed << 20) ^ token)
        self.trace = []

    # -- helpers -------------------------------------------------------------------------------
    def label(self, fid):
        n = self.fut_node.get(fid)
        return n if n is not None else "#%d" % self.submitted.index(fid)

    def close(self):
        with self.cv:
            self.closed = True
            gates = list(self.parked.values())
            self.parked.clear()
            self.cv.notify_all()
        for g in gates:
            g.set()

    def bypass(self, why):
        if not self.bypassed:
            self.bypassed = True
            ev("BYPASS", token=self.token, why=why)
        self.close()

    def inflight(self):
        return [f for f in self.submitted if f not in self.body_done]

    def settle(self):
        """Wait until min(#in-flight, pool size) in-flight bodies are parked (DESIGN 2.3-1)."""
        deadline = time.monotonic() + Settings.settle_s
        with self.cv:
            while True:
                if self.closed:
                    return False
                infl = self.inflight()
                need = min(len(infl), self.max_workers)
                npark = sum(1 for f in infl if f in self.parked)
                if npark >= need:
                    return True
                if time.monotonic() > deadline:
                    break
                self.cv.wait(0.002)
        self.bypass("settle timeout")
        return False

    def release(self, fids):
        gates = []
        with self.cv:
            for f in fids:
                g = self.parked.pop(f, None)
                if g is not None:
                    gates.append(g)
        for g in gates:
            g.set()
        deadline = time.monotonic() + Settings.settle_s
        with self.cv:
            while not all((f in self.body_done and f in self.fut_done) for f in fids):
                if self.closed:
                    return False
                if time.monotonic() > deadline:
                    break
                self.cv.wait(0.002)
            else:
                return True
        self.bypass("release timeout")
        return False


EPOCH_BY_THREAD: dict = {}  # thread ident -> number of client operations started by that thread
SCHED_POOL_BY_THREAD: dict = {}  # scheduler thread ident -> the pool of its current execution (used when a pool is re-used)


def new_epoch():
    me = threading.get_ident()
    EPOCH_BY_THREAD[me] = EPOCH_BY_THREAD.get(me, 0) + 1


def cur_token():
    tok = CTX.get()
    if tok is not None and tok in _SUPERSEDED:
        tok = _SUPERSEDED[tok]._twz_tok
    if tok is None:
        pool = getattr(TLS, "pool", None)
        pool = pool() if pool is not None else None  # weak: a worker must not keep its (possibly abandoned) pool alive
        if pool is None:
            pool = SCHED_POOL_BY_THREAD.get(threading.get_ident())
            if pool is not None and not getattr(pool, "_twz_reused", False):
                pool = None
        tok = pool._twz_tok if pool is not None else None
    return tok


_SUPERSEDED: dict = {}  # old token -> pool (a pool that is re-used by a later client operation gets a fresh token)


def cur_exec():
    return EXECS.get(cur_token())


# ------------------------------------------------------------------------------------------------
# choosers
# ------------------------------------------------------------------------------------------------
def random_chooser(ex, point, cands, others, rw):
    """Seeded random: returns the labels to release (in order)."""
    rng = ex.rng
    if point == "inline":
        pool = list(cands)
        if not pool or rng.random() < 0.5:
            return []
        return rng.sample(pool, rng.randint(1, len(pool)))
    cands = list(cands)
    if rw == ALL_COMPLETED:
        rng.shuffle(cands)
        return cands
    k = 1 if rng.random() < 0.6 else rng.randint(1, len(cands))
    rel = rng.sample(cands, k)
    if others and rng.random() < 0.3:
        rel += rng.sample(list(others), rng.randint(1, len(others)))
    return rel


class PrefixChooser:
    """Deterministic chooser driven by a list of alternative indexes (exhaustive DFS by replay)."""

    def __init__(self, prefix=()):
        self.prefix = list(prefix)
        self.trace = []  # (n_alternatives, chosen index, labels)
        self.diverged = False

    @staticmethod
    def alternatives(point, cands, others, rw):
        cands, others = sorted(cands), sorted(others)
        if point == "inline":
            alts = [()]
            for k in range(1, len(cands) + 1):
                alts.extend(itertools.combinations(cands, k))
            return alts
        if rw == ALL_COMPLETED:
            return [tuple(p) for p in itertools.permutations(cands)] if len(cands) <= 3 else [tuple(cands)]
        alts = []
        allp = cands + others
        for k in range(1, len(allp) + 1):
            for c in itertools.combinations(allp, k):
                if any(x in cands for x in c):
                    alts.append(c)
        return alts

    def __call__(self, ex, point, cands, others, rw):
        alts = self.alternatives(point, cands, others, rw)
        i = len(self.trace)
        idx = self.prefix[i] if i < len(self.prefix) else 0
        if idx >= len(alts):
            idx = 0
            self.diverged = True
        self.trace.append((len(alts), idx, alts[idx]))
        return list(alts[idx])


def _choose(ex, point, cand_fids, other_fids, rw):
    lab = {ex.label(f): f for f in list(cand_fids) + list(other_fids)}
    cands = sorted(ex.label(f) for f in cand_fids)
    others = sorted(ex.label(f) for f in other_fids)
    chooser = Settings.chooser or random_chooser
    picked = chooser(ex, point, cands, others, rw)
    ex.trace.append((point, tuple(cands), tuple(others), tuple(picked)))
    ev("CHOICE", token=ex.token, point=point, cands=cands, others=others, picked=list(picked))
    return [lab[p] for p in picked if p in lab]


# ------------------------------------------------------------------------------------------------
# patched stdlib boundary
# ------------------------------------------------------------------------------------------------
_real_wait = cf.wait
_real_async_wait = asyncio.wait
_RealPool = cft.ThreadPoolExecutor
_RealTask = asyncio.tasks.Task
RealPool = _RealPool
real_wait = _real_wait


class Pool(_RealPool):
    def __init__(self, max_workers=None, thread_name_prefix="", initializer=None, initargs=()):
        with LOCK:
            tok = next(_ids)
        self._twz_tok = tok
        ex = Exec(tok, max_workers)
        EXECS[tok] = ex
        CTX.set(tok)
        REACH["POOL_NEW"] += 1
        ev("POOL_NEW", token=tok, max_workers=max_workers)

        pool = weakref.ref(self)
        self._twz_epoch = (threading.get_ident(), EPOCH_BY_THREAD.get(threading.get_ident(), 0))
        self._twz_max_workers = max_workers
        SCHED_POOL_BY_THREAD[threading.get_ident()] = self

        def init():
            TLS.pool = pool
            p = pool()
            ev("WORKER", token=p._twz_tok if p is not None else tok)
            del p
            if initializer is not None:
                initializer(*initargs)

        super().__init__(max_workers, thread_name_prefix or "twz%d" % tok, init)

    def _twz_refresh_if_reused(self):
        """A scheduler that keeps its pool alive between client operations: every operation is still one execution."""
        me = threading.get_ident()
        cur = (me, EPOCH_BY_THREAD.get(me, 0))
        if cur == self._twz_epoch or me not in EPOCH_BY_THREAD:
            return
        old = EXECS.get(self._twz_tok)
        if old is not None:
            old.close()
        with LOCK:
            tok = next(_ids)
        _SUPERSEDED[self._twz_tok] = self
        self._twz_tok = tok
        self._twz_epoch = cur
        self._twz_reused = True
        EXECS[tok] = Exec(tok, self._twz_max_workers)
        SCHED_POOL_BY_THREAD[me] = self
        REACH["POOL_REUSED"] += 1
        ev("POOL_NEW", token=tok, max_workers=self._twz_max_workers, reused=True)
        for t in list(self._threads):
            ev("WORKER", token=tok, worker=t.ident, thread_override=t.ident)

    def submit(self, fn, /, *a, **k):
        self._twz_refresh_if_reused()
        ex = EXECS.get(self._twz_tok)
        if ex is None:
            return super().submit(fn, *a, **k)
        with LOCK:
            fid = next(_ids)
        tid = None
        try:
            task = asyncio.current_task()
        except RuntimeError:
            task = None
        if task is not None and task is not ex.sched_task:
            tid = getattr(task, "_twz_tid", None)

        def run(*aa, **kk):
            prev = getattr(TLS, "fut", None)
            TLS.fut = fid
            try:
                return fn(*aa, **kk)
            finally:
                TLS.fut = prev
                with ex.cv:
                    ex.body_done.add(fid)
                    ex.cv.notify_all()

        with ex.cv:
            ex.submitted.append(fid)
            if tid is not None:
                ex.task2fut[tid] = fid
                ex.fut2task[fid] = tid
        REACH["SUBMIT"] += 1
        ev("SUBMIT", token=ex.token, fut=fid, task=tid)
        fut = super().submit(run, *a, **k)
        fut._twz_fid = fid
        with ex.cv:
            ex.futs[fid] = fut

        def _done(_f):
            with ex.cv:
                ex.fut_done.add(fid)
                ex.cv.notify_all()

        fut.add_done_callback(_done)
        return fut

    def shutdown(self, wait=True, *, cancel_futures=False):
        ex = EXECS.get(self._twz_tok)
        if ex is not None and not getattr(self, "_twz_exited", False):
            self._twz_exited = True
            ev("POOL_EXIT", token=ex.token, parked=sorted(ex.label(f) for f in ex.parked))
            ex.close()
        return super().shutdown(wait=wait, cancel_futures=cancel_futures)


class Task(_RealTask):
    def __init__(self, coro, **kw):
        super().__init__(coro, **kw)
        with LOCK:
            self._twz_tid = next(_ids)
        ex = cur_exec()
        name = getattr(coro, "__qualname__", "")
        if ex is not None:
            ex.tasks[self._twz_tid] = self
            REACH["TASK_NEW"] += 1
            ev("TASK_NEW", token=ex.token, task=self._twz_tid, coro=name)


def _control_thread(ex, fids, rw):
    """Runs on the scheduler thread inside concurrent.futures.wait."""
    for _round in range(10000):
        if not ex.settle():
            return
        with ex.cv:
            cands = [f for f in fids if f in ex.parked]
            waited_done = [f for f in fids if f in ex.fut_done]
            pend = [f for f in fids if f not in ex.fut_done]
            others = [f for f in ex.parked if f not in fids]
        if rw == FIRST_COMPLETED and waited_done:
            return
        if not pend:
            return
        if not cands:
            with ex.cv:
                finishing = [f for f in pend if f in ex.body_done]  # body returned, future about to be completed
                unparked = [f for f in pend if f in ex.submitted and f not in ex.body_done]  # running without parking, or queued
            if finishing:
                time.sleep(0.0002)
                continue
            if unparked:
                if others:
                    ex.release(_choose(ex, "forced", others, [], ALL_COMPLETED))
                    continue
                # nothing is parked: the waited bodies (operator nodes, argument stubs, ...) complete on their own
                return
            ev("DEADLOCK", token=ex.token, wkind="thread", futs=[ex.label(f) for f in fids])
            raise DeadlockDetected("thread wait on %r: nothing parked, running or queued" % (fids,))
        if rw == ALL_COMPLETED:
            order = _choose(ex, "wait_all", cands, [], rw)
            for f in order:
                ex.release([f])
                ev("CTRL_STEP", token=ex.token, released=ex.label(f))
            continue
        rel = _choose(ex, "wait", cands, others, rw)
        if not rel:
            rel = cands[:1]
        ex.release(rel)
        return


def wait(fs, timeout=None, return_when=ALL_COMPLETED):
    ex = cur_exec()
    fs = set(fs)
    if ex is None or threading.get_ident() != ex.sched_thread or not all(hasattr(f, "_twz_fid") for f in fs):
        return _real_wait(fs, timeout, return_when)
    fids = sorted(f._twz_fid for f in fs)
    if Settings.controlled and not ex.bypassed and not ex.closed:
        ex.settle()
        if timeout is not None and ex.rng.random() < 0.5 and not any(f.done() for f in fs):
            # the scheduler asked for a TIMED wait: "nothing finished within the timeout" is a legal outcome, injected here
            # without spending the wall-clock time (parked probes cannot finish on their own)
            REACH["WAIT_thread_timeout_injected"] += 1
            ev("WAIT_CALL", token=ex.token, wkind="thread", futs=fids, rw=return_when, done_at_call=[], timed=timeout)
            ev("WAIT_RET", token=ex.token, wkind="thread", done=[], timeout_expired=True)
            return cfb.DoneAndNotDoneFutures(set(), set(fs))
    REACH["WAIT_thread"] += 1
    ev(
        "WAIT_CALL",
        token=ex.token,
        wkind="thread",
        futs=fids,
        rw=return_when,
        done_at_call=[f._twz_fid for f in fs if f.done()],
    )
    if Settings.controlled and not ex.bypassed and not ex.closed:
        _control_thread(ex, fids, return_when)
    r = _real_wait(fs, timeout, return_when)
    ev("WAIT_RET", token=ex.token, wkind="thread", done=sorted(f._twz_fid for f in r.done))
    return r


async def _control_async(ex, tasks, rw):
    for _ in range(500):
        if all((getattr(t, "_twz_tid", None) in ex.task2fut) or t.done() for t in tasks):
            break
        await asyncio.sleep(0)
    for _round in range(10000):
        if not ex.settle():
            return
        fids = [ex.task2fut[t._twz_tid] for t in tasks if getattr(t, "_twz_tid", None) in ex.task2fut]
        with ex.cv:
            cands = [f for f in fids if f in ex.parked]
            others = [f for f in ex.parked if f not in fids]
        waited_done = [t for t in tasks if t.done()]
        pend = [t for t in tasks if not t.done()]
        if rw == FIRST_COMPLETED and waited_done:
            return
        if not pend:
            return
        if not cands:
            with ex.cv:
                # a body whose completion has not reached its task yet / a body running without parking / a task not yet submitted
                finishing = [f for f in fids if f in ex.body_done and not ex.tasks[ex.fut2task[f]].done()]
                unparked = [f for f in fids if f not in ex.body_done]
            unsubmitted = [t for t in pend if getattr(t, "_twz_tid", None) not in ex.task2fut]
            if finishing or unsubmitted:
                await asyncio.sleep(0)
                continue
            if unparked:
                if others:
                    ex.release(_choose(ex, "forced", others, [], ALL_COMPLETED))
                    continue
                return
            ev("DEADLOCK", token=ex.token, wkind="async", futs=[ex.label(f) for f in fids])
            raise DeadlockDetected("async wait: nothing parked, running or queued")
        if rw == ALL_COMPLETED:
            order = _choose(ex, "wait_all", cands, [], rw)
            for f in order:
                ex.release([f])
                ev("CTRL_STEP", token=ex.token, released=ex.label(f))
            rel = order
        else:
            rel = _choose(ex, "wait", cands, others, rw)
            if not rel:
                rel = cands[:1]
            ex.release(rel)
        # let the loop carry the completions to the tasks
        for _ in range(2000):
            if ex.closed or all(ex.tasks[ex.fut2task[f]].done() for f in rel if f in ex.fut2task):
                break
            await asyncio.sleep(0)
        if rw != ALL_COMPLETED:
            return


async def async_wait(fs, *, timeout=None, return_when=ALL_COMPLETED):
    ex = cur_exec()
    fs = set(fs)
    if ex is None or not all(hasattr(f, "_twz_tid") for f in fs):
        return await _real_async_wait(fs, timeout=timeout, return_when=return_when)
    tasks = sorted(fs, key=lambda t: t._twz_tid)
    tids = [t._twz_tid for t in tasks]
    controlled = Settings.controlled and not ex.bypassed and not ex.closed
    if controlled:
        for _ in range(500):
            if all((t._twz_tid in ex.task2fut) or t.done() for t in tasks):
                break
            await asyncio.sleep(0)
        ex.settle()
        if timeout is not None and ex.rng.random() < 0.5 and not any(t.done() for t in tasks):
            REACH["WAIT_async_timeout_injected"] += 1
            ev("WAIT_CALL", token=ex.token, wkind="async", tasks=tids, rw=return_when, done_at_call=[], timed=timeout)
            ev("WAIT_RET", token=ex.token, wkind="async", done_tasks=[], timeout_expired=True)
            await asyncio.sleep(0)
            return set(), set(fs)
    REACH["WAIT_async"] += 1
    ev(
        "WAIT_CALL",
        token=ex.token,
        wkind="async",
        tasks=tids,
        rw=return_when,
        done_at_call=[t._twz_tid for t in tasks if t.done()],
    )
    if controlled:
        await _control_async(ex, tasks, return_when)
    done, pend = await _real_async_wait(fs, timeout=timeout, return_when=return_when)
    ev("WAIT_RET", token=ex.token, wkind="async", done_tasks=sorted(getattr(f, "_twz_tid", -1) for f in done))
    return done, pend


_installed = False


def install():
    global _installed
    if _installed:
        return
    if "tawazi" in sys.modules:
        raise RuntimeError("twzmon.bootstrap.install() must run before tawazi is imported")
    cf.wait = wait
    cfb.wait = wait
    cf.ThreadPoolExecutor = Pool
    cft.ThreadPoolExecutor = Pool
    asyncio.wait = async_wait
    asyncio.tasks.wait = async_wait
    asyncio.tasks.Task = Task
    asyncio.Task = Task
    _installed = True


# ------------------------------------------------------------------------------------------------
# hooks on public tawazi classes (class attribute wrappers, transparent)
# ------------------------------------------------------------------------------------------------
_hooks_installed = False


def _inline_control(ex):
    if not ex.settle():
        return
    if not Settings.inline_release:
        return
    with ex.cv:
        parked = list(ex.parked)
    if parked:
        rel = _choose(ex, "inline", parked, [], None)
        if rel:
            ex.release(rel)


def install_tawazi_hooks():
    global _hooks_installed
    if _hooks_installed:
        return
    import tawazi  # noqa: F401
    from tawazi._helpers import StrictDict
    from tawazi.node.node import ExecNode

    orig_execute = ExecNode.execute

    def execute(self, results, profiles):
        ex = cur_exec()
        fid = getattr(TLS, "fut", None)
        inline = False
        if ex is not None and threading.get_ident() == ex.sched_thread and fid is None:
            inline = True
        if ex is not None and fid is not None:
            ex.fut_node[fid] = self.id
        REACH["XENTER"] += 1
        tok = cur_token()
        try:
            deps = [u.id for u in self.dependencies]
            meta = dict(deps=deps, is_seq=bool(self.is_sequential), res=str(getattr(self.resource, "value", self.resource)))
        except Exception:  # noqa: BLE001
            meta = {}
        ev("XENTER", token=tok, node=self.id, fut=None if inline else fid, inline=inline, **meta)
        if inline and Settings.controlled and not ex.bypassed and not ex.closed:
            _inline_control(ex)
        prev = getattr(TLS, "node", None)
        TLS.node = self.id
        try:
            r = orig_execute(self, results, profiles)
        except BaseException as e:
            ev("XEXIT", token=tok, node=self.id, ok=False, exc=type(e).__name__)
            raise
        else:
            ev("XEXIT", token=tok, node=self.id, ok=True)
            return r
        finally:
            TLS.node = prev

    execute._twz_orig = orig_execute
    ExecNode.execute = execute

    orig_setitem = StrictDict.__setitem__

    def setitem(self, key, value):
        orig_setitem(self, key, value)
        tok = CTX.get()
        if tok is not None and getattr(TLS, "node", None) is None:
            ex = EXECS.get(tok)
            if ex is not None and threading.get_ident() == ex.sched_thread:
                REACH["RES_SET"] += 1
                ev("RES_SET", token=tok, key=key, is_none=value is None, dict=id(self))

    StrictDict.__setitem__ = setitem
    _install_step_counter()
    _hooks_installed = True


def _install_step_counter():
    """Count backward jumps (= loop iterations) of the scheduler module's functions per execution."""
    mon = getattr(sys, "monitoring", None)
    if mon is None:
        return
    from tawazi._dag import helpers

    tool = 3
    try:
        mon.use_tool_id(tool, "twzmon")
    except ValueError:
        return

    def on_jump(code, src, dst):
        if dst < src:
            ex = cur_exec()
            if ex is not None:
                ex.steps += 1
                REACH["STEP"] += 1
                limit = Settings.step_limit or Settings.default_step_limit
                if ex.steps > limit and not ex.closed:
                    ev("SPIN", token=ex.token, steps=ex.steps, limit=limit)
                    ex.close()
                    raise SpinDetected("scheduler loop iterations %d > %d" % (ex.steps, limit))

    mon.register_callback(tool, mon.events.JUMP, on_jump)
    import types

    for obj in vars(helpers).values():
        if isinstance(obj, types.FunctionType) and obj.__module__ == helpers.__name__:
            mon.set_local_events(tool, obj.__code__, mon.events.JUMP)


# ------------------------------------------------------------------------------------------------
# probe side
# ------------------------------------------------------------------------------------------------
def park_here():
    """Called from a probe body running on a pool worker: park until the controller releases."""
    ex = cur_exec()
    fid = getattr(TLS, "fut", None)
    if ex is None or fid is None:
        return
    if Settings.controlled:
        if ex.closed or ex.bypassed:
            return
        gate = threading.Event()
        with ex.cv:
            if ex.closed:
                return
            if fid not in ex.submitted:
                foreign = True
            else:
                foreign = False
                ex.parked[fid] = gate
        if foreign:
            # the body was handed to a pool this execution did not create (e.g. the event loop's default executor): the
            # controller of this execution never sees that future - let the execution run free instead of parking for ever
            ex.bypass("node body runs on a pool the execution did not create")
            return
        with ex.cv:
            ex.cv.notify_all()
        if not gate.wait(Settings.valve_s):
            ex.bypass("valve: parked probe never released")
    elif Settings.stress_sleep:
        time.sleep(ex.rng.random() * Settings.stress_sleep)


def close_all():
    for ex in list(EXECS.values()):
        ex.close()
