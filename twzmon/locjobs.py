"""C14, identification clause: "the call raises an exception that identifies the failing node and its call location and
carries the original exception as its cause" - for EVERY way a node can come into being:

  plain decorated functions (any declaration form), operator nodes on results (binary, reflected, unary), and_/or_/not_,
  decorated methods called on an instance, nodes inside a nested DAG, nodes of a composed DAG, of a re-configured DAG,
  of an executor; every resource; sync and async flavour; exceptions with and without args.

One statement per source line and one node per statement, so the expected location of every node is known exactly
("<file>:<line>") without asking tawazi.  The fault is injected by node id (probes) or through the operator hook of the
symbolic values (`sym.OP_FAULT`), exactly one failing node per run.
"""
from __future__ import annotations

import random

from . import bootstrap as B
from . import probes, spec as S, sym
from .jobs import REGISTRY, Collector, job
from .sym import Sym

BIN = {"+": "_add", "-": "_sub", "*": "_mul", "/": "_truediv", "//": "_floordiv", "%": "_mod", "**": "_pow", "<<": "_lshift",
       ">>": "_rshift", "&": "_and", "^": "_xor", "|": "_or", "@": "_matmul", "<": "_lt", "<=": "_le", ">": "_gt", ">=": "_ge",
       "==": "_eq", "!=": "_ne"}
CMPS = ("<", "<=", ">", ">=", "==", "!=")
UN = {"-": "_neg", "+": "_pos", "~": "_invert", "abs": "_abs"}


def _op_fault():
    if getattr(B.TLS, "ref", False):
        return
    node = getattr(B.TLS, "node", None)
    if node is not None and node in probes.State.faults:
        raise probes.Injected(node)


def gen(rng, k, depth=1):
    """-> program dict: name, file, params, stmts [(kind, text, base)], fns, inner"""
    name = "lp%d_%d" % (k, depth)
    nfn = rng.randint(1, 3)
    fns = {}
    for i in range(nfn):
        fns["%s_f%d" % (name, i)] = dict(resource=rng.choice(["thread", "thread", "main-thread", "async-thread"]),
                                         priority=rng.choice([0, 0, 3, -2]), is_sequential=rng.random() < 0.15)
    # where the describing function "lives": an exec-ed string, or a (not necessarily existing) file next to / below a directory
    # whose name merely STARTS like the installed tawazi package (tawazi_pipelines/, tawazi-extras/, tawazix.py)
    import os

    import tawazi

    tdir = os.path.dirname(os.path.abspath(tawazi.__file__))
    r_file = rng.random()
    if r_file < 0.6:
        fname = "<%s>" % name
    elif r_file < 0.75:
        fname = "%s_pipelines/%s.py" % (tdir, name)
    elif r_file < 0.9:
        fname = "%sx_%s.py" % (tdir, name)
    else:
        fname = "/opt/flows/tawazi/%s.py" % name
    prog = dict(name=name, file=fname, params=["x"], stmts=[], fns=fns, inner=None, methods=rng.random() < 0.5)
    vars_ = ["x"]
    symv = ["x"]  # variables known to hold symbolic terms (operators on python bools would bypass the fault hook)
    n = rng.randint(2, 8)
    nested_done = False
    for i in range(n):
        v = "%s_v%d" % (name, i)
        r = rng.random()
        a = rng.choice(vars_)
        b = rng.choice(vars_)
        is_sym = True
        if 0.30 <= r < 0.80:
            a = rng.choice(symv)  # (truth tests of python bools / operators on them would bypass the fault hook)
            b = rng.choice(symv)
        if r < 0.30:
            fn = rng.choice(sorted(fns))
            args = [rng.choice(vars_ + ["7", "'c'"]) for _ in range(rng.randint(0, 2))]
            kw = ["k=%s" % rng.choice(vars_)] if rng.random() < 0.3 else []
            if rng.random() < 0.15:
                kw.append("twz_tag='t%d'" % i)
            prog["stmts"].append(("call", "%s = %s(%s)" % (v, fn, ", ".join(args + kw)), fn))
        elif r < 0.62:
            sym_ = rng.choice(sorted(BIN))
            form = rng.random()
            const = rng.choice(["2", "3.5", "1"])
            if form < 0.4:
                txt = "%s %s %s" % (a, sym_, b)
            elif form < 0.7 or sym_ in CMPS:
                # (a reflected comparison is the mirrored comparison of the other operand: `1 < a` builds `_gt`)
                txt = "%s %s %s" % (a, sym_, const)
            else:
                txt = "%s %s %s" % (const, sym_, a)  # reflected operator
                prog.setdefault("reflected_lines", []).append(len(prog["stmts"]))
            prog["stmts"].append(("bin", "%s = %s" % (v, txt), BIN[sym_]))
        elif r < 0.70:
            u = rng.choice(sorted(UN))
            prog["stmts"].append(("un", "%s = %s" % (v, "abs(%s)" % a if u == "abs" else "%s%s" % (u, a)), UN[u]))
        elif r < 0.80:
            fn = rng.choice(["and_", "or_", "not_"])
            prog["stmts"].append(("bool", "%s = %s(%s)" % (v, fn, a if fn == "not_" else "%s, %s" % (a, b)), fn))
            is_sym = False
        elif r < 0.90 and prog["methods"]:
            prog["stmts"].append(("meth", "%s = obj.meth(%s)" % (v, a), "LocK.meth"))
        elif depth > 0 and not nested_done:
            nested_done = True
            prog["inner"] = gen(rng, k, depth - 1)
            a = rng.choice(symv)  # the inner DAG's parameter must be a symbolic term too
            prog["stmts"].append(("dag", "%s = %s(%s)" % (v, prog["inner"]["name"], a), None))
            is_sym = prog["inner"]["ret"] in prog["inner"]["symv"]
        else:
            fn = rng.choice(sorted(fns))
            prog["stmts"].append(("call", "%s = %s(%s)" % (v, fn, a), fn))
        vars_.append(v)
        if is_sym:
            symv.append(v)
    prog["symv"] = symv
    prog["ret"] = rng.choice(vars_[1:])
    return prog


def render(prog):
    L = ["def %s(x):" % prog["name"]]
    for _k, txt, _b in prog["stmts"]:
        L.append("    " + txt)
    L.append("    return %s" % prog["ret"])
    return "\n".join(L) + "\n"


def expected(prog, prefix=""):
    """node id -> (file, line, kind) predicted from the source alone"""
    out = {}
    seen = {}
    for i, (kind, _txt, base) in enumerate(prog["stmts"]):
        line = i + 2
        if kind == "dag":
            out.update(expected(prog["inner"], prefix + prog["inner"]["name"] + "."))
            continue
        c = seen.get(base, 0)
        seen[base] = c + 1
        nid = base if c == 0 else "%s<<%d>>" % (base, c)
        out[prefix + nid] = (prog["file"], line, kind if i not in prog.get("reflected_lines", []) else "reflected")
    return out


class LocK:
    pass


def build(prog, is_async, mc, salt):
    from tawazi import Resource, and_, not_, or_, xn

    env = {"and_": and_, "or_": or_, "not_": not_}

    def meth(self, a):
        _op_fault()
        return Sym("meth", a)

    meth.__qualname__ = "LocK.meth"
    meth.__name__ = "meth"
    K = type("LocK", (), {"meth": xn(meth)})
    env["obj"] = K()
    for name, fs in prog["fns"].items():
        kw = dict(priority=fs["priority"], is_sequential=fs["is_sequential"], resource=Resource(fs["resource"]))
        env[name] = S.declare_xn(probes.mkprobe(name), kw, name, salt=salt)
    if prog["inner"] is not None:
        env[prog["inner"]["name"]] = build(prog["inner"], False, 1, salt)
    exec(compile(render(prog), prog["file"], "exec"), env)  # noqa: S102
    return S.declare_dag(env[prog["name"]], dict(max_concurrency=mc, is_async=is_async), prog["name"], salt=salt)


def judge(col, res, nid, exp, way, rp):
    from tawazi.errors import TawaziBaseException

    col.counters["c14_loc_failing_runs"] += 1
    col.counters["c14_loc_kind_%s" % exp[2]] += 1
    w = dict(way=way, node=nid, expected_location="%s:%d" % exp[:2], node_kind=exp[2])
    if res[0] == "ok":
        col.violation("C14", "call_returned_normally_although_node_failed", w, rp)
        return
    e = res[1]
    cause = e.__cause__
    if isinstance(e, probes.Injected):
        col.violation("C14", "original_exception_not_wrapped_although_location_known", dict(w, exc=repr(e)[:200]), rp)
        return
    if not (isinstance(e, TawaziBaseException) and isinstance(cause, probes.Injected)):
        col.violation("C14", "internal_error_instead_of_node_failure", dict(w, exc=type(e).__name__, msg=str(e)[:300], cause=repr(cause)[:200]), rp)
        return
    if cause.node != nid:
        col.violation("C14", "cause_is_not_the_injected_failure", dict(w, cause_node=cause.node), rp)
        return
    msg = str(e)
    col.counters["c14_loc_messages_checked"] += 1
    if nid not in msg:
        col.violation("C14", "exception_does_not_name_failing_node", dict(w, msg=msg[:300]), rp)
    loc = "%s:%d" % exp[:2]
    i = msg.find(loc)
    if i < 0 or msg[i + len(loc): i + len(loc) + 1].isdigit():
        mech = "exception_does_not_name_call_location"
        if exp[2] == "reflected":
            mech = "reflected_operator_node_reports_a_location_inside_tawazi"
        col.violation("C14", mech, dict(w, msg=msg[:300]), rp)


def one_case(col, rng, k, rp_extra=None):
    import asyncio

    prog = gen(rng, k)
    is_async = rng.random() < 0.35
    mc = rng.randint(1, 3)
    salt = str(rng.randrange(1000))
    src = render(prog) if prog["inner"] is None else render(prog["inner"]) + "\n" + render(prog)
    rp = {"kind": "c14_loc", "case_seed": rp_extra, "case_k": k, "source": src, "is_async": is_async, "mc": mc}
    sym.OP_FAULT[0] = _op_fault
    d = build(prog, is_async, mc, salt)
    exp = expected(prog)
    col.evaluations += 1
    col.hashes.add(S.spec_hash({"s": src, "a": is_async, "mc": mc}))
    real = set(d.exec_nodes) if hasattr(d, "exec_nodes") else set()
    unknown = [n for n in exp if n not in real]
    if unknown:
        # the monitor's id prediction must agree with the DAG before anything is judged
        col.inconclusive.append("c14_loc: predicted node ids %r not in the DAG (%r)" % (unknown[:3], sorted(real)[:12]))
        return
    ways = ["call"]
    r = rng.random()
    if r < 0.2:
        ways.append("after_config_from_dict")
    elif r < 0.35:
        ways.append("executor")
    elif r < 0.6:
        ways.append("deepcopy")
    for way in ways:
        obj = d
        if way == "after_config_from_dict":
            tgt = rng.choice(sorted(exp))
            d.config_from_dict({"nodes": {tgt: {"priority": 9}}, "max_concurrency": mc})
        elif way == "executor":
            obj = None
        elif way == "deepcopy":
            from copy import deepcopy

            obj = deepcopy(d)
        sel = sorted(exp)
        for nid in rng.sample(sel, min(len(sel), 3)):
            probes.State.faults = {nid}
            B.reset_log()
            try:
                x = Sym("x", k)
                if way == "executor":
                    ex = d.executor()
                    thunk = (lambda ex=ex: asyncio.run(ex(x))) if is_async else (lambda ex=ex: ex(x))
                else:
                    thunk = (lambda obj=obj: asyncio.run(obj(x))) if is_async else (lambda obj=obj: obj(x))
                res = probes.run_op("%s fail=%s" % (way, nid), thunk)
            finally:
                probes.State.faults = set()
            judge(col, res, nid, exp[nid], way, dict(rp, way=way, failing=nid))
    if col.evaluations % 40 == 1:
        col.sample({"source": src, "expected_locations": {n: "%s:%d (%s)" % v for n, v in sorted(exp.items())[:12]}, "ways": ways})


@job("c14_loc")
def job_c14_loc(j):
    col = Collector()
    B.Settings.controlled = False
    for k in range(j.get("n_cases", 100)):
        cs = j["seed"] * 100003 + k
        one_case(col, random.Random(cs), k, rp_extra=cs)
    sym.OP_FAULT[0] = None
    return col.result()


def _replay(j, rp):
    col = Collector(max_per_mech=20)
    B.Settings.controlled = False
    one_case(col, random.Random(rp["case_seed"]), rp.get("case_k", 0), rp_extra=rp["case_seed"])
    sym.OP_FAULT[0] = None
    return col.result()


REGISTRY["replay:c14_loc"] = _replay
