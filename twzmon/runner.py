"""Parallel batch runner: one `subprocess.run` per job (never multiprocessing.Pool), aggregation,
known-finding classification, replay files, evidence file, exit code discipline (DESIGN 2.9)."""
from __future__ import annotations

import json
import os
import subprocess
import sys
import tempfile
import threading
import time
import zlib
from collections import Counter

ROOT = os.path.dirname(os.path.dirname(os.path.abspath(__file__)))
PY = os.environ.get("TWZ_PYTHON", "/venv/bin/python")
REPO = os.environ.get("TWZ_REPO", "/repo")
# runs against a deliberately broken scratch tree (self-tests, seeded changes) must not touch the committed evidence
EVIDENCE_DIR = os.environ.get("TWZ_EVIDENCE_DIR") or os.path.join(ROOT, "evidence")
REPLAY_DIR = os.environ.get("TWZ_REPLAY_DIR") or os.path.join(ROOT, "replays")
KNOWN = os.path.join(ROOT, "known_findings.json")


def worker_env(hashseed):
    env = dict(os.environ)
    env["PYTHONPATH"] = os.pathsep.join([REPO, ROOT] + [p for p in env.get("PYTHONPATH", "").split(os.pathsep) if p])
    env["PYTHONHASHSEED"] = str(hashseed)
    env["TWZ_VERIF"] = "1"
    env.setdefault("PYTHONDONTWRITEBYTECODE", "1")
    return env


def run_job(job, timeout):
    """Run one job in a fresh interpreter. Returns the result dict (or an inconclusive stub)."""
    fd, out = tempfile.mkstemp(prefix="twzjob_", suffix=".json")
    os.close(fd)
    fdj, jpath = tempfile.mkstemp(prefix="twzjob_in_", suffix=".json")
    with os.fdopen(fdj, "w") as f:
        json.dump(job, f)
    t0 = time.time()
    try:
        p = subprocess.run(  # noqa: S603
            [PY, "-X", "faulthandler", "-m", "twzmon.worker", jpath, out],
            env=dict(worker_env(job.get("hashseed", 0)), **{str(k): str(v) for k, v in (job.get("env") or {}).items()}),
            cwd=ROOT,
            capture_output=True,
            text=True,
            timeout=timeout,
        )
        try:
            with open(out) as f:
                res = json.load(f)
        except Exception:  # noqa: BLE001
            res = {"inconclusive": ["worker produced no result (rc=%s): %s" % (p.returncode, (p.stderr or "")[-1500:])]}
        if p.returncode != 0 and "inconclusive" not in res:
            res.setdefault("inconclusive", []).append("worker rc=%s: %s" % (p.returncode, (p.stderr or "")[-800:]))
    except subprocess.TimeoutExpired as e:
        err = e.stderr.decode() if isinstance(e.stderr, bytes) else (e.stderr or "")
        res = {"inconclusive": ["worker watchdog (%ss) fired: %s" % (timeout, err[-1500:])], "watchdog": True}
    finally:
        for pth in (out, jpath):
            try:
                os.unlink(pth)
            except OSError:
                pass
    res["wall_s"] = time.time() - t0
    res["job"] = {k: v for k, v in job.items() if k not in ("case",)}
    return res


def run_jobs(jobs, parallel=8, timeout=600):
    results = [None] * len(jobs)
    lock = threading.Lock()
    nxt = [0]

    def loop():
        while True:
            with lock:
                i = nxt[0]
                nxt[0] += 1
            if i >= len(jobs):
                return
            r = run_job(jobs[i], timeout)
            if r.get("inconclusive") and not r.get("violations") and not jobs[i].get("_retried"):
                # an inconclusive batch is re-run once in a fresh process with the same seed
                j2 = dict(jobs[i])
                j2["_retried"] = True
                r2 = run_job(j2, timeout)
                r2["retried_after"] = r.get("inconclusive")
                r = r2
            results[i] = r

    ts = [threading.Thread(target=loop) for _ in range(min(parallel, len(jobs)) or 1)]
    for t in ts:
        t.start()
    for t in ts:
        t.join()
    return results


def load_known():
    try:
        with open(KNOWN) as f:
            return json.load(f)
    except FileNotFoundError:
        return {"findings": [], "fixed": []}


def is_known(viol, known):
    for k in known.get("findings", []):
        if k["property"] == viol["prop"] and k["mechanism"] == viol["mech"]:
            return k
    return None


def validate_evidence(ev):
    """Built-in check of the keys EVIDENCE.schema.json requires for exploration-style levels."""
    for k in ("property_id", "tier", "seed", "level", "coverage", "wall_s"):
        assert k in ev, k
    assert ev["tier"] in ("quick", "thorough")
    assert isinstance(ev["seed"], int)
    c = ev["coverage"]
    assert isinstance(c["evaluations"], int) and c["evaluations"] >= 1
    assert isinstance(c["distinct_nontrivial"], int) and c["distinct_nontrivial"] >= 2, c["distinct_nontrivial"]
    assert isinstance(c["rule"], str)
    assert isinstance(c["samples"], list) and len(c["samples"]) >= 1


def finish(pid, tier, seed, level, rule, assumptions, results, t0, required_reach=(), extra=None, min_eval=1,
           exhaustive=None):
    """Aggregate worker results for property `pid`, write evidence, print verdict lines, return exit code."""
    known = load_known()
    evaluations = 0
    hashes = set()
    counters = Counter()
    reach = Counter()
    samples = []
    mine, others = [], Counter()
    inconclusive = []
    for r in results:
        evaluations += int(r.get("evaluations", 0))
        hashes.update(r.get("hashes", []))
        counters.update(r.get("counters", {}))
        reach.update(r.get("reach", {}))
        for s in r.get("samples", []):
            if len(samples) < 6:
                samples.append(s)
        for v in r.get("violations", []):
            if v["prop"] == pid:
                mine.append(v)
            else:
                others[v["prop"] + ":" + v["mech"]] += 1
        for m in r.get("inconclusive", []):
            jb = r.get("job", {})
            inconclusive.append("%s [job kind=%s seed=%s hashseed=%s]" % (m, jb.get("kind"), jb.get("seed"), jb.get("hashseed")))
    soft = [m for r in results for m in r.get("soft_inconclusive", [])]
    nsoft = int(counters.get("cases_skipped_controller_bypassed", 0))
    if nsoft and (nsoft > 5 or nsoft > 0.001 * max(evaluations, 1)):
        inconclusive.append("%d cases skipped because the controller's wall-clock safety valve fired: %s" % (nsoft, soft[:2]))
    for key in required_reach:
        if not (reach.get(key, 0) or counters.get(key, 0)):
            inconclusive.append("deciding monitor never reached: %s == 0" % key)
    if evaluations < min_eval:
        inconclusive.append("too few evaluations: %d < %d" % (evaluations, min_eval))

    os.makedirs(REPLAY_DIR, exist_ok=True)
    lines = []
    known_hits = Counter()
    unknown = []
    for v in mine:
        k = is_known(v, known)
        if k is not None:
            known_hits[k["mechanism"]] += 1
        else:
            unknown.append(v)
    for mech, cnt in known_hits.items():
        k = next(x for x in known["findings"] if x["mechanism"] == mech and x["property"] == pid)
        lines.append("KNOWN-FINDING: property=%s %s (mechanism=%s, %d witnesses this run)" % (pid, k["what"], mech, cnt))
    seen_mech = Counter()
    for v in unknown:
        seen_mech[v["mech"]] += 1
        if seen_mech[v["mech"]] > 3:
            continue
        body = json.dumps(v, sort_keys=True, default=repr)
        name = "%s-%s-%08x.json" % (pid, v["mech"][:40], zlib.crc32(body.encode()))
        path = os.path.join(REPLAY_DIR, name)
        with open(path, "w") as f:
            json.dump(v, f, indent=1, default=repr)
        lines.append("VIOLATION property=%s replay=%s" % (pid, path))
        lines.append("  mechanism=%s witness=%s" % (v["mech"], json.dumps(v.get("witness"), default=repr)[:600]))

    cov = {
        "evaluations": evaluations,
        "distinct_nontrivial": len(hashes),
        "rule": rule,
        "samples": samples or [{"note": "no sample recorded"}],
        "observed": dict(counters),
        "monitor_reach": dict(reach),
        "other_property_alarms_seen": dict(others),
        "known_finding_witnesses": dict(known_hits),
        "inconclusive": inconclusive[:10],
        "jobs": len(results),
        "peak_threads_in_one_worker": max([int(r.get("peak_threads", 0)) for r in results] or [0]),
    }
    if exhaustive is not None:
        cov["exhaustive"] = bool(exhaustive)
    if extra:
        cov.update(extra)
    ev = {
        "property_id": pid,
        "tier": tier,
        "seed": int(seed),
        "level": level,
        "coverage": cov,
        "assumptions": list(assumptions),
        "wall_s": round(time.time() - t0, 2),
        "violations": len(unknown),
    }
    os.makedirs(EVIDENCE_DIR, exist_ok=True)
    try:
        validate_evidence(ev)
        valid = True
    except AssertionError as e:
        valid = False
        inconclusive.append("evidence would not validate: %r" % (e,))
        cov["distinct_nontrivial"] = max(cov["distinct_nontrivial"], 0)
    with open(os.path.join(EVIDENCE_DIR, "%s.json" % pid), "w") as f:
        json.dump(ev, f, indent=1, default=repr)
    for ln in lines:
        print(ln)
    print("%s tier=%s seed=%s evaluations=%d distinct_nontrivial=%d violations=%d known=%d inconclusive=%d wall=%.1fs" % (
        pid, tier, seed, evaluations, len(hashes), len(unknown), sum(known_hits.values()), len(inconclusive), time.time() - t0))
    if unknown:
        return 1
    if inconclusive or not valid:
        for r in inconclusive[:5]:
            print("INCONCLUSIVE property=%s reason=%s" % (pid, str(r)[:500].replace("\n", " | ")))
        return 3
    return 0
