"""C16 (thread safety: concurrent runs and builds) and C17 (AsyncDAG == DAG, isolated awaits, free loop)."""
from __future__ import annotations

import asyncio
import queue
import random
import sys
import threading
import time
import traceback
import warnings
from collections import Counter

from . import bootstrap as B
from . import probes, sched, spec as S
from .jobs import REGISTRY, Collector, job
from .sym import Sym, same, short


def fingerprint(d):
    """Everything that identifies a built DAG (ids, attributes, references, constants, inputs, return shape, edges, priorities)."""
    nodes = []
    for k, xn in d.exec_nodes.items():
        nodes.append((k, type(xn).__name__, tuple((u.id, tuple(u.key)) for u in xn.args),
                      tuple(sorted((kk, u.id, tuple(u.key)) for kk, u in xn.kwargs.items())),
                      None if xn.active is None else (xn.active.id, tuple(xn.active.key)), xn.priority, xn.is_sequential,
                      str(xn.resource), str(xn.tag), xn.setup, xn.debug, xn.unpack_to))
    ret = d.return_uxns

    def r(u):
        return (u.id, tuple(u.key))

    if ret is None:
        rs = None
    elif isinstance(ret, (list, tuple)):
        rs = (type(ret).__name__, tuple(r(u) for u in ret))
    elif isinstance(ret, dict):
        rs = ("dict", tuple((k, r(u)) for k, u in ret.items()))
    else:
        rs = ("single", r(ret))
    consts = tuple(sorted((k, short(v, 80)) for k, v in d.results.items()))
    return (tuple(nodes), consts, tuple(u.id for u in d.input_uxns), rs, tuple(sorted(d.graph_ids.edges)),
            tuple(sorted(d.graph_ids.compound_priority.items())), d.max_concurrency)


def fp_diff(a, b):
    names = ["nodes", "constants", "inputs", "return", "edges", "compound_priority", "max_concurrency"]
    out = []
    for nm, x, y in zip(names, a, b):
        if x != y:
            if nm == "nodes":
                ka, kb = {n[0] for n in x}, {n[0] for n in y}
                out.append({"part": nm, "only_in_concurrent": sorted(ka - kb)[:6], "only_in_alone": sorted(kb - ka)[:6]})
            else:
                out.append({"part": nm, "concurrent": short(x, 200), "alone": short(y, 200)})
    return out


# ------------------------------------------------------------------------------------------------ lockset monitor
class Lockset:
    """Python-level 'Eraser': every touch of the objects currently bound to node.exec_nodes / node.results must be
    performed by the thread that owns exec_nodes_lock (DESIGN 2.6)."""

    def __init__(self):
        self.reports = []
        self.touches = 0
        self.installed = False

    def install(self):
        if self.installed:
            return
        from tawazi._helpers import StrictDict
        from tawazi.node import node as N

        mon = self
        real = N.exec_nodes_lock

        class OwnedLock:
            def __init__(self):
                self._l = real
                self.owner = None

            def acquire(self, *a, **k):
                r = self._l.acquire(*a, **k)
                if r:
                    self.owner = threading.get_ident()
                return r

            def release(self):
                self.owner = None
                self._l.release()

            def locked(self):
                return self._l.locked()

            def __enter__(self):
                self.acquire()
                return self

            def __exit__(self, *a):
                self.release()

        lk = OwnedLock()
        N.exec_nodes_lock = lk
        self.lock = lk

        def touch(obj, op):
            if obj is N.exec_nodes or obj is N.results:
                mon.touches += 1
                me = threading.get_ident()
                if lk.owner != me:
                    fr = [f for f in traceback.extract_stack() if "/tawazi/" in f.filename]
                    mon.reports.append((op, "exec_nodes" if obj is N.exec_nodes else "results",
                                        fr[-1].name if fr else "?", fr[0].name if fr else "?", lk.owner is not None))

        for meth in ("__setitem__", "__getitem__", "__contains__", "update", "force_set", "items", "values", "__iter__", "__len__", "get", "keys"):
            orig = StrictDict.__dict__.get(meth) or getattr(dict, meth)

            def mk(orig=orig, meth=meth):
                def w(self, *a, **k):
                    touch(self, meth)
                    return orig(self, *a, **k)

                return w

            setattr(StrictDict, meth, mk())
        self.installed = True


LOCKSET = Lockset()


# ------------------------------------------------------------------------------------------------ C16
def per_token_cases(log, spec, d, plain, calls):
    """Split a multi-threaded log into one case per execution token.
    calls: {thread ident: [(opid, args, ref, res)] in call order}."""
    pools = [e for e in log if e["kind"] == "POOL_NEW"]
    by_thread = {}
    for e in pools:
        by_thread.setdefault(e["thread"], []).append(e["token"])
    ids = S.node_ids(spec)
    out = []
    for th, toks in by_thread.items():
        cl = calls.get(th, [])
        for tok, (opid, args, ref, res) in zip(toks, cl):
            evs = [e for e in log if e.get("token") == tok or (e["kind"] in ("OP_BEGIN", "OP_END") and e.get("opid") == opid)]
            out.append({"spec": spec, "op": {"kind": "call"}, "args": args, "faults": [], "ref": ref, "res": res, "log": evs,
                        "ids": ids, "sel": None, "dag": d, "plain": plain})
    return out


def run_op_id(label, thunk, opid):
    B.new_epoch()
    req = "req-%d" % next(B._ids)
    rtok = B.REQ.set(req)
    s0 = B.ev("OP_BEGIN", op=label, opid=opid, req=req)
    me = threading.get_ident()
    probes.CURRENT_OPS[me] = (label, time.monotonic())
    try:
        try:
            val = thunk()
        finally:
            B.REQ.reset(rtok)
    except BaseException as e:  # noqa: BLE001
        probes.CURRENT_OPS.pop(me, None)
        B.ev("OP_END", op=label, ok=False, exc=type(e).__name__, begin=s0, opid=opid)
        return ("exc", e)
    probes.CURRENT_OPS.pop(me, None)
    B.ev("OP_END", op=label, ok=True, begin=s0, opid=opid)
    return ("ok", val)


def w1_concurrent_calls(col, rng, cidx, jobref):
    """N threads call one DAG with distinct argument nonces."""
    pid = "C16"
    sp = sched.gen_shape(rng, nmin=3, nmax=8, mc_max=4)
    sp["is_async"] = rng.random() < 0.3  # an AsyncDAG shared by threads that each run their own event loop
    # a second, defaulted DAG parameter: concurrent calls pass it or not
    sp["params"] = ["x", "y"]
    sp["defaults"] = {"y": ("D", "y")}
    for nd in sp["nodes"]:
        if rng.random() < 0.3:
            nd["args"].append(["p", "y"])
    # several call sites sharing ONE activation flag (a DAG argument whose truthiness differs between the concurrent calls)
    indexed = {a[1] for m in sp["nodes"] for a in list(m["args"]) + list(m["kwargs"].values()) + ([m["active"]] if m.get("active") else [])
               if a[0] == "n" and a[2]}
    for i_, nd in enumerate(sp["nodes"]):
        if nd["active"] is None and i_ not in indexed and rng.random() < 0.3:
            nd["active"] = ["p", "x"]
    d, _e, plain = S.build_tawazi(sp)
    ids = S.node_ids(sp)
    if sp["is_async"]:
        col.counters["c16_concurrent_call_cases_on_an_asyncdag"] += 1

        def invoke(a):
            return asyncio.run(_await(d, a))
    else:
        def invoke(a):
            return d(*a)

    nthreads = rng.choice([2, 4, 8, 16])
    ncalls = rng.randint(1, 3)
    plan_ = {t: [[Sym("arg", cidx, t, k)] + ([Sym("argy", cidx, t, k)] if rng.random() < 0.5 else []) for k in range(ncalls)] for t in range(nthreads)}
    refs = {t: [S.run_reference(sp, a, plain) for a in plan_[t]] for t in range(nthreads)}
    rp = {"kind": "rerun_job", "job": dict(jobref, n_cases=cidx + 1), "source": S.render(sp), "threads": nthreads}
    B.reset_log()
    probes.reset_counts()
    B.Settings.controlled = False
    B.Settings.stress_sleep = 0.002
    from . import sym as _sym

    _sym.YIELD_IN_BOOL[0] = 0.0005 if rng.random() < 0.5 else 0  # flag evaluation as a pre-emption point
    calls = {}
    start = threading.Barrier(nthreads)
    lock = threading.Lock()

    def worker(t):
        me = threading.get_ident()
        start.wait()
        for k, a in enumerate(plan_[t]):
            opid = "%d.%d.%d" % (cidx, t, k)
            r = run_op_id("call", lambda: invoke(a), opid)
            with lock:
                calls.setdefault(me, []).append((opid, a, refs[t][k], r))

    ths = [threading.Thread(target=worker, args=(t,), name="twz-client") for t in range(nthreads)]
    for t in ths:
        t.start()
    for t in ths:
        t.join(120)
    _sym.YIELD_IN_BOOL[0] = 0
    if any(t.is_alive() for t in ths):
        col.inconclusive.append("concurrent-call threads did not finish within 120 s")
        return
    log = B.snapshot()
    col.evaluations += 1
    for me, cl in calls.items():
        for opid, a, ref, r in cl:
            col.counters["c16_concurrent_calls"] += 1
            if ref[0] != "ok":
                continue
            if r[0] != "ok":
                col.violation(pid, "concurrent_call_raised", dict(exc=repr(r[1])[:300], threads=nthreads, source=S.render(sp)), rp)
            elif not same(ref[1].result, r[1]):
                col.violation(pid, "concurrent_call_got_result_for_other_arguments_or_wrong_value", dict(
                    expected=short(ref[1].result, 300), got=short(r[1], 300), threads=nthreads, source=S.render(sp)), rp)
    col.generic(log, rp)
    for case in per_token_cases(log, sp, d, plain, calls):
        viol, st, _v = sched.check_all(case)
        col.counters["c16_per_execution_monitor_runs"] += 1
        for x in viol:
            if x["prop"] in ("C02", "C03", "C04", "C05"):
                col.violation(pid, "per_execution_monitor_failed_under_concurrent_calls(%s:%s)" % (x["prop"], x["mech"]), x["witness"], rp)
    # afterwards the DAG must behave as freshly built: defaults intact, a missing required argument still rejected
    from tawazi.errors import TawaziArgumentException

    a_after = [Sym("arg", cidx, "after")]
    ref_after = S.run_reference(sp, a_after, plain)
    B.reset_log()
    r_after = probes.run_op("call_after_concurrent_calls", lambda: invoke(a_after))
    r_missing = probes.run_op("call_without_required_argument", lambda: invoke([]))
    col.counters["c16_calls_after_concurrent_calls"] += 1
    if ref_after[0] == "ok" and (r_after[0] != "ok" or not same(ref_after[1].result, r_after[1])):
        col.violation(pid, "dag_state_changed_by_concurrent_calls", dict(
            expected=short(ref_after[1].result, 300), got=short(r_after[1], 300), threads=nthreads, source=S.render(sp)), rp)
    if any(a == ["p", "x"] for nd in sp["nodes"] for a in nd["args"]) and not (r_missing[0] == "exc" and isinstance(r_missing[1], TawaziArgumentException)):
        col.violation(pid, "missing_argument_no_longer_rejected_after_concurrent_calls", dict(outcome=short(r_missing, 200), source=S.render(sp)), rp)
    order = tuple(e["node"] for e in log if e["kind"] == "FENTER")[:60]
    col.hashes.add(S.spec_hash({"s": S.render(sp), "t": nthreads, "o": hash(order) & 0xFFFFFF}))
    if cidx % 20 == 0:
        col.sample(dict(workload="concurrent calls of one DAG", source=S.render(sp), threads=nthreads, calls_per_thread=ncalls,
                        tokens=len([e for e in log if e["kind"] == "POOL_NEW"])))


def w5_concurrent_cache_writes(col, rng, cidx, jobref):
    """Several threads run executors of ONE shared DAG at the same time, each writing its own cache file (same directory) and
    each with its own arguments; pickling is a pre-emption point.  Every call returns its own value, every file exists and a
    restart from it returns the value of the run that wrote it, executing nothing."""
    import os
    import pickle
    import shutil
    import tempfile

    pid = "C16"
    sp = sched.gen_shape(rng, nmin=2, nmax=6, mc_max=3, const_objects=0.0, flags=False)
    sp["is_async"] = False
    d, _e, plain = S.build_tawazi(sp)
    ids = S.node_ids(sp)
    nthreads = rng.choice([2, 3, 4])
    tmpd = tempfile.mkdtemp(prefix="twzc16_")
    rp = {"kind": "rerun_job", "job": dict(jobref, n_cases=cidx + 1), "source": S.render(sp), "threads": nthreads}
    from . import sym as _sym

    args = {t: [Sym("arg", cidx, "cw", t)] for t in range(nthreads)}
    refs = {t: S.run_reference(sp, args[t], plain) for t in range(nthreads)}
    out = {}
    start = threading.Barrier(nthreads)
    B.reset_log()
    B.Settings.controlled = False
    B.Settings.stress_sleep = 0.0
    _sym.YIELD_IN_PICKLE[0] = 0.002

    def worker(t):
        start.wait()
        path = os.path.join(tmpd, "run%d.pkl" % t)
        out[t] = run_op_id("executor_with_cache_in", lambda: d.executor(cache_in=path)(*args[t]), "%d.cw.%d" % (cidx, t))

    try:
        ths = [threading.Thread(target=worker, args=(t,), name="twz-client") for t in range(nthreads)]
        for th in ths:
            th.start()
        for th in ths:
            th.join(120)
        _sym.YIELD_IN_PICKLE[0] = 0
        if any(th.is_alive() for th in ths):
            col.inconclusive.append("concurrent cache-writing threads did not finish within 120 s")
            return
        col.evaluations += 1
        col.counters["c16_concurrent_cache_writes"] += nthreads
        for t in range(nthreads):
            r = out.get(t)
            if refs[t][0] != "ok" or r is None:
                continue
            path = os.path.join(tmpd, "run%d.pkl" % t)
            if r[0] != "ok":
                col.violation(pid, "concurrent_call_raised", dict(what="executor(cache_in=own file)", exc=repr(r[1])[:300], threads=nthreads, source=S.render(sp)), rp)
                continue
            if not same(refs[t][1].result, r[1]):
                col.violation(pid, "concurrent_call_got_result_for_other_arguments_or_wrong_value", dict(
                    what="executor(cache_in=own file)", expected=short(refs[t][1].result, 300), got=short(r[1], 300), source=S.render(sp)), rp)
                continue
            if not os.path.exists(path):
                col.violation(pid, "cache_file_of_a_concurrent_run_is_missing", dict(threads=nthreads, source=S.render(sp)), rp)
                continue
            B.reset_log()
            rr = probes.run_op("restart_from_own_file", lambda: d.executor(from_cache=path)(*args[t]))
            ent = [e["node"] for e in B.snapshot() if e["kind"] == "FENTER"]
            if rr[0] != "ok" or not same(refs[t][1].result, rr[1]) or ent:
                col.violation(pid, "cache_file_of_a_concurrent_run_holds_another_runs_results", dict(
                    expected=short(refs[t][1].result, 300), got=short(rr[1], 300) if rr[0] == "ok" else repr(rr[1])[:200], re_executed=ent,
                    threads=nthreads, source=S.render(sp)), rp)
        col.hashes.add(S.spec_hash({"cw": S.render(sp), "t": nthreads}))
    finally:
        _sym.YIELD_IN_PICKLE[0] = 0
        shutil.rmtree(tmpd, ignore_errors=True)


def w4_shared_flag(col, rng, cidx, jobref):
    """Many call sites share ONE activation flag object (a DAG argument); threads call the DAG concurrently with flags of
    different truthiness; the evaluation of the flag is a pre-emption point. Every call must activate exactly its own nodes."""
    pid = "C16"
    from . import sym as _sym

    n = rng.randint(4, 9)
    fns, nodes = {}, []
    for i in range(n):
        fns["f%d" % i] = dict(priority=rng.choice([0, 1, 2]), is_sequential=False, resource=rng.choice(["thread", "thread", "main-thread"]), shape=None)
        nd = {"fn": "f%d" % i, "args": [["p", "y"]], "kwargs": {}, "active": ["p", "x"] if rng.random() < 0.8 else None}
        if i and rng.random() < 0.3:
            nd["args"].append(["n", rng.randrange(i), []])
        nodes.append(nd)
    sp = {"name": "prog", "params": ["x", "y"], "defaults": {}, "fns": fns, "nodes": nodes,
          "ret": ["tuple", [["n", i, []] for i in range(n)]], "mc": rng.randint(1, 3), "is_async": False}
    d, _e, plain = S.build_tawazi(sp)
    nthreads = rng.choice([2, 3, 4, 8])
    ncalls = rng.randint(2, 5)
    truthy = [Sym("flag", cidx, q) for q in range(40) if bool(Sym("flag", cidx, q))][:6]
    falsy = [Sym("flag", cidx, q) for q in range(40) if not bool(Sym("flag", cidx, q))][:6] + [0, None, ""]
    plan_ = {t: [[rng.choice(truthy if rng.random() < 0.5 else falsy), Sym("argy", cidx, t, k)] for k in range(ncalls)] for t in range(nthreads)}
    refs = {t: [S.run_reference(sp, a, plain) for a in plan_[t]] for t in range(nthreads)}
    rp = {"kind": "rerun_job", "job": dict(jobref, n_cases=cidx + 1), "source": S.render(sp), "threads": nthreads}
    B.reset_log()
    B.Settings.controlled = False
    B.Settings.stress_sleep = 0.0005
    _sym.YIELD_IN_BOOL[0] = 0.0003
    out = {}
    start = threading.Barrier(nthreads)

    def worker(t):
        start.wait()
        res = []
        for k, a in enumerate(plan_[t]):
            res.append(run_op_id("call", lambda: d(*a), "f%d.%d.%d" % (cidx, t, k)))
        out[t] = res

    try:
        ths = [threading.Thread(target=worker, args=(t,), name="twz-client") for t in range(nthreads)]
        for t in ths:
            t.start()
        for t in ths:
            t.join(120)
    finally:
        _sym.YIELD_IN_BOOL[0] = 0
    col.evaluations += 1
    col.counters["c16_shared_flag_cases"] += 1
    for t in range(nthreads):
        for k, r in enumerate(out.get(t, [])):
            rf = refs[t][k]
            col.counters["c16_shared_flag_calls"] += 1
            if rf[0] != "ok":
                continue
            if r[0] != "ok":
                col.violation(pid, "concurrent_call_raised", dict(exc=repr(r[1])[:300], threads=nthreads, source=S.render(sp)), rp)
            elif not same(rf[1].result, r[1]):
                col.violation(pid, "concurrent_call_activated_nodes_by_another_calls_flag", dict(
                    flag=short(plan_[t][k][0]), expected=short(rf[1].result, 300), got=short(r[1], 300), threads=nthreads, source=S.render(sp)), rp)
    col.hashes.add(S.spec_hash({"flagrace": S.render(sp), "t": nthreads, "c": ncalls}))


def w2_build_overlap(col, rng, cidx, jobref):
    """Thread A pauses INSIDE its describing function (handshake => the overlap is deterministic) while thread B calls a
    shared DAG, calls a decorated function outside any DAG, and thread C builds another DAG."""
    pid = "C16"
    from tawazi import xn
    from tawazi.config import cfg
    from tawazi.consts import XNOutsideDAGCall
    from tawazi.errors import TawaziUsageError

    shared_sp = sched.gen_shape(rng, nmin=2, nmax=5, mc_max=2)
    shared_sp["name"] = "shared"
    shared_sp["is_async"] = rng.random() < 0.35  # the shared DAG may be an AsyncDAG awaited in thread B's own event loop
    shared_setup = {}
    if rng.random() < 0.5:
        # the shared DAG has a setup node whose result is already there ("after its setup nodes have run")
        gsh = S.site_graph(shared_sp)
        for i, nd in enumerate(shared_sp["nodes"]):
            if gsh.in_degree(i) == 0 and not any(a[0] == "p" for a in nd["args"]) and nd["active"] is None \
                    and sum(1 for m in shared_sp["nodes"] if m["fn"] == nd["fn"]) == 1:
                shared_sp["fns"][nd["fn"]]["setup"] = True
                shared_setup[i] = None
                break
    shared_plain = {name: probes.mkprobe(name, shape=tuple(fs["shape"]) if fs.get("shape") else None) for name, fs in shared_sp["fns"].items()}
    shared, _e, _sp = S.build_tawazi(shared_sp, plain=shared_plain)
    if shared_setup:
        if shared_sp["is_async"]:
            asyncio.run(shared.setup())
        else:
            shared.setup()
        ids_sh = S.node_ids(shared_sp)
        shared_setup = {i: shared.results[ids_sh[i]] for i in shared_setup}
        col.counters["c16_shared_dag_with_setup_node"] += 1
    a_sp = sched.gen_shape(rng, nmin=2, nmax=6, mc_max=2)
    a_sp["name"] = "building"
    c_sp = sched.gen_shape(rng, nmin=2, nmax=5, mc_max=2)
    c_sp["name"] = "other"
    a_plain = S.make_fns(a_sp)
    c_plain = S.make_fns(c_sp)
    alone_a, _e, _p = S.build_tawazi(a_sp, plain=a_plain)
    alone_c, _e, _p = S.build_tawazi(c_sp, plain=c_plain)
    fp_a, fp_c = fingerprint(alone_a), fingerprint(alone_c)
    outside = xn(probes.mkprobe("outside_fn"))
    behaviour = rng.choice([XNOutsideDAGCall.error, XNOutsideDAGCall.ignore, XNOutsideDAGCall.warning])
    rp = {"kind": "rerun_job", "job": dict(jobref, n_cases=cidx + 1), "building": S.render(a_sp), "shared": S.render(shared_sp)}
    ev_in, ev_go = threading.Event(), threading.Event()
    pause_at = rng.randrange(len(a_sp["nodes"]))
    out = {}

    def wrap(real):
        def w(*a, **k):
            ev_in.set()
            out["A_released_by_B"] = ev_go.wait(20)
            return real(*a, **k)

        return w

    def thread_a():
        try:
            out["A"] = ("ok", S.build_tawazi(a_sp, plain=a_plain, wrap_site={pause_at: wrap})[0])
        except BaseException as e:  # noqa: BLE001
            out["A"] = ("exc", e)

    def thread_c():
        ev_in.wait(20)
        try:
            out["C"] = ("ok", S.build_tawazi(c_sp, plain=c_plain)[0])
        except BaseException as e:  # noqa: BLE001
            out["C"] = ("exc", e)

    args = [Sym("arg", cidx, "b")]
    ref = S.run_reference(shared_sp, args, shared_plain, env_values=dict(shared_setup))
    old = cfg.TAWAZI_EXECNODE_OUTSIDE_DAG_BEHAVIOR
    # a call with the description-only keyword `twz_active`: whatever it does when nobody is building (a usage error on the pinned
    # tree), it does the same while another thread is paused inside a describing function
    kw_call = None if shared_sp["is_async"] else (lambda: shared(*args, twz_active=False))
    kw_before = None
    if kw_call is not None:
        r0_ = probes.run_op("call_with_description_only_keyword_before_the_build", kw_call)
        kw_before = (r0_[0], type(r0_[1]).__name__ if r0_[0] == "exc" else None)

    def thread_b():
        ev_in.wait(20)
        B.Settings.controlled = False
        call_shared = (lambda: asyncio.run(_await(shared, args))) if shared_sp["is_async"] else (lambda: shared(*args))
        out["B_call"] = run_op_id("call_shared_while_other_thread_builds", call_shared, "b%d" % cidx)
        if kw_call is not None:
            rk_ = run_op_id("call_with_description_only_keyword_while_other_thread_builds", kw_call, "bk%d" % cidx)
            out["B_kw"] = (rk_[0], type(rk_[1]).__name__ if rk_[0] == "exc" else None)
        cfg.TAWAZI_EXECNODE_OUTSIDE_DAG_BEHAVIOR = behaviour
        try:
            # the warning recorder was installed by the MAIN thread before any thread started (warning filters are
            # interpreter-wide: this thread must not touch them, or it would undo what another thread did to them)
            n0 = sum(1 for w_ in recorded if issubclass(w_.category, RuntimeWarning))
            try:
                v_ = outside(Sym("direct", cidx))
                out["B_fn"] = ("ok", v_, sum(1 for w_ in recorded if issubclass(w_.category, RuntimeWarning)) - n0)
            except BaseException as e:  # noqa: BLE001
                out["B_fn"] = ("exc", e, sum(1 for w_ in recorded if issubclass(w_.category, RuntimeWarning)) - n0)
        finally:
            cfg.TAWAZI_EXECNODE_OUTSIDE_DAG_BEHAVIOR = old
        ev_go.set()

    B.reset_log()
    probes.reset_counts()
    # thread names are not unique in Python: half of the cases give all three threads the same name
    nm = (lambda k: "twz-client") if rng.random() < 0.5 else (lambda k: "twz-client-%s" % k)
    ta, tb, tc = (threading.Thread(target=thread_a, name=nm("a")), threading.Thread(target=thread_b, name=nm("b")),
                  threading.Thread(target=thread_c, name=nm("c")))
    recorded = []
    with warnings.catch_warnings(record=True) as recorded:
        warnings.simplefilter("always")
        ta.start()
        tb.start()
        tc.start()
        for t in (ta, tb, tc):
            t.join(60)
        ev_go.set()
    col.evaluations += 1
    col.counters["c16_build_overlaps"] += 1
    if any(t.is_alive() for t in (ta, tb, tc)) or "B_call" not in out or "B_fn" not in out or "A" not in out:
        col.violation(pid, "threads_blocked_during_overlapped_build", dict(done=sorted(out), building=S.render(a_sp)), rp)
        return
    if out.get("A_released_by_B") is False:
        col.violation(pid, "call_in_other_thread_blocked_until_the_paused_build_finished", dict(
            shared=S.render(shared_sp), shared_has_setup_node=bool(shared_setup), done=sorted(k for k in out)), rp)
    # B: running a DAG in another thread is unaffected by the build
    r = out["B_call"]
    if ref[0] == "ok":
        if r[0] != "ok":
            col.violation(pid, "dag_call_during_other_threads_build_raised", dict(exc=repr(r[1])[:300], shared=S.render(shared_sp)), rp)
        elif not same(ref[1].result, r[1]):
            col.violation(pid, "dag_call_during_other_threads_build_returned_wrong_value", dict(
                expected=short(ref[1].result, 300), got=short(r[1], 300), shared=S.render(shared_sp)), rp)
    if kw_before is not None and "B_kw" in out:
        col.counters["c16_description_only_keyword_calls_during_a_build"] += 1
        if out["B_kw"] != kw_before:
            col.violation(pid, "call_with_description_only_keyword_behaves_differently_during_other_threads_build", dict(
                alone=kw_before, during_the_build=out["B_kw"], shared=S.render(shared_sp)), rp)
    # B: a decorated function outside any DAG behaves as configured
    f = out["B_fn"]
    col.counters["c16_outside_calls_%s" % behaviour.value] += 1
    expv = probes.run_ref(lambda: outside.exec_function(Sym("direct", cidx)))[1]
    if behaviour == XNOutsideDAGCall.error:
        if not (f[0] == "exc" and isinstance(f[1], TawaziUsageError)):
            col.violation(pid, "decorated_function_outside_dag_did_not_raise_during_other_threads_build", dict(outcome=short(f[:2], 200), configured="error"), rp)
    else:
        if not (f[0] == "ok" and same(f[1], expv)):
            col.violation(pid, "decorated_function_outside_dag_did_not_run_during_other_threads_build", dict(outcome=short(f[:2], 200), configured=behaviour.value), rp)
        elif behaviour == XNOutsideDAGCall.warning and f[2] < 1:
            col.violation(pid, "decorated_function_outside_dag_did_not_warn_during_other_threads_build", dict(outcome=short(f[:2], 200)), rp)
    # A and C: identical to the DAGs built alone
    for nm, fp0 in (("A", fp_a), ("C", fp_c)):
        if nm not in out:
            continue
        if out[nm][0] != "ok":
            col.violation(pid, "overlapped_build_raised", dict(which=nm, exc=repr(out[nm][1])[:300], building=S.render(a_sp)), rp)
            continue
        diff = fp_diff(fingerprint(out[nm][1]), fp0)
        if diff:
            col.violation(pid, "dag_built_during_overlap_differs_from_dag_built_alone", dict(which=nm, diff=diff, building=S.render(a_sp), shared=S.render(shared_sp)), rp)
    col.hashes.add(S.spec_hash({"a": S.render(a_sp), "s": S.render(shared_sp), "p": pause_at, "b": behaviour.value}))
    if cidx % 20 == 1:
        col.sample(dict(workload="build paused inside describing function while another thread calls a DAG / a decorated function",
                        building=S.render(a_sp), paused_before_call_site=pause_at, shared=S.render(shared_sp), outside_behaviour=behaviour.value))


def w3_concurrent_builds(col, rng, cidx, jobref):
    pid = "C16"
    nthreads = rng.choice([2, 4, 8])
    specs = []
    for t in range(nthreads):
        sp = sched.gen_shape(rng, nmin=2, nmax=7, mc_max=3)
        sp["name"] = "b%d" % t
        specs.append(sp)
    plains = [S.make_fns(sp) for sp in specs]
    alone = [fingerprint(S.build_tawazi(sp, plain=pl)[0]) for sp, pl in zip(specs, plains)]
    rp = {"kind": "rerun_job", "job": dict(jobref, n_cases=cidx + 1)}
    out = {}
    start = threading.Barrier(nthreads)
    old = sys.getswitchinterval()
    sys.setswitchinterval(1e-6)

    def worker(t):
        start.wait()
        res = []
        for _ in range(3):
            try:
                res.append(("ok", fingerprint(S.build_tawazi(specs[t], plain=plains[t])[0])))
            except BaseException as e:  # noqa: BLE001
                res.append(("exc", e))
        out[t] = res

    try:
        ths = [threading.Thread(target=worker, args=(t,), name="twz-client") for t in range(nthreads)]
        for t in ths:
            t.start()
        for t in ths:
            t.join(120)
    finally:
        sys.setswitchinterval(old)
    col.evaluations += 1
    col.counters["c16_concurrent_build_rounds"] += 1
    for t in range(nthreads):
        for r in out.get(t, []):
            col.counters["c16_concurrent_builds"] += 1
            if r[0] != "ok":
                col.violation(pid, "concurrent_build_raised", dict(exc=repr(r[1])[:300], source=S.render(specs[t])), rp)
            else:
                diff = fp_diff(r[1], alone[t])
                if diff:
                    col.violation(pid, "dag_built_concurrently_differs_from_dag_built_alone", dict(diff=diff, source=S.render(specs[t])), rp)
    col.hashes.add(S.spec_hash({"b": [S.render(sp) for sp in specs]}))


def enable_yield_injection(prob, seed):
    """Forced pre-emption at statement boundaries of tawazi's build / scheduling code (sys.monitoring LINE events):
    with probability `prob` the running thread yields (time.sleep(0)). Explores interleavings the OS scheduler rarely picks."""
    import importlib
    import types

    mon = getattr(sys, "monitoring", None)
    if mon is None:
        return 0
    tool = 4
    try:
        mon.use_tool_id(tool, "twz-yield")
    except ValueError:
        return 0
    rnd = random.Random(seed)
    hits = [0]

    def on_line(code, line):
        if rnd.random() < prob:
            hits[0] += 1
            time.sleep(0)

    mon.register_callback(tool, mon.events.LINE, on_line)
    n = 0
    for name in ("tawazi.node.node", "tawazi._dag.constructor", "tawazi._dag.dag", "tawazi._dag.helpers", "tawazi.node.functions", "tawazi._dag.digraph"):
        mod = importlib.import_module(name)
        objs = list(vars(mod).values())
        for o in list(objs):
            if isinstance(o, type) and o.__module__ == name:
                objs.extend(vars(o).values())
        for o in objs:
            f = getattr(o, "__func__", o)
            f = getattr(f, "fget", f) if isinstance(f, property) else f
            if isinstance(f, types.FunctionType) and f.__module__ == name:
                try:
                    mon.set_local_events(tool, f.__code__, mon.events.LINE)
                    n += 1
                except Exception:  # noqa: BLE001
                    pass
    enable_yield_injection.hits = hits
    return n


@job("conc16")
def job_conc16(j):
    rng = random.Random(j["seed"])
    col = Collector()
    if j.get("yield_inject"):
        nf = enable_yield_injection(float(j["yield_inject"]), j["seed"])
        col.counters["c16_functions_with_yield_injection"] += nf
    if j.get("lockset", True):
        LOCKSET.install()
    for c in range(j["n_cases"]):
        w = c % 4
        try:
            if c % 12 == 11:
                w5_concurrent_cache_writes(col, rng, c, j)
            elif w == 0:
                w1_concurrent_calls(col, rng, c, j)
            elif w == 1:
                w2_build_overlap(col, rng, c, j)
            elif w == 2:
                w3_concurrent_builds(col, rng, c, j)
            else:
                w4_shared_flag(col, rng, c, j)
        except (KeyboardInterrupt, SystemExit):
            raise
        except BaseException as e:  # noqa: BLE001
            # every program built / called here is valid: an exception escaping tawazi is itself the interference witness
            tb = traceback.extract_tb(e.__traceback__)
            if any("/tawazi/" in f.filename for f in tb):
                col.violation("C16", "valid_build_or_call_raised_in_concurrent_workload", dict(
                    workload=["concurrent_calls", "build_overlap", "concurrent_builds", "shared_flag"][w], exc=repr(e)[:300],
                    where=["%s:%d" % (f.name, f.lineno) for f in tb if "/tawazi/" in f.filename][-3:]),
                    {"kind": "rerun_job", "job": dict(j, n_cases=c + 1)})
            else:
                raise
    if j.get("yield_inject"):
        col.counters["c16_injected_yields"] += getattr(enable_yield_injection, "hits", [0])[0]
    if LOCKSET.installed:
        col.counters["c16_lockset_touches_checked"] += LOCKSET.touches
        seen = Counter(LOCKSET.reports)
        for (op, which, inner, outer, lock_held), cnt in seen.most_common(5):
            col.violation("C16", "lockset_build_state_touched_by_thread_not_owning_the_build_lock", dict(
                op=op, object=which, innermost_tawazi_frame=inner, outermost_tawazi_frame=outer, build_lock_held_by_other_thread=lock_held,
                count=cnt), {"kind": "rerun_job", "job": dict(j)})
    res = col.result()
    if j.get("pid", "C16") != "C16":
        # the workload re-used by another property's check: only the named clauses count, reported under that property
        only = j.get("only") or []
        keep = []
        for v in res["violations"]:
            if v["prop"] == "C16" and any(v["mech"] == o or (o.endswith("*") and v["mech"].startswith(o[:-1])) for o in only):
                keep.append(dict(v, prop=j["pid"]))
        res["violations"] = keep
    return res


# ------------------------------------------------------------------------------------------------ C17
class LoopWatch:
    """Loop-liveness handshake: a probe running in a worker asks the event loop to serve it; only a sibling coroutine of
    the SAME loop can answer. A time-out only triggers stack sampling of the loop thread; the stack is the verdict."""

    def __init__(self):
        self.q = queue.Queue()
        self.loop_thread = None
        self.served = 0
        self.stop = False
        self.verdicts = []

    async def sibling(self):
        self.loop_thread = threading.get_ident()
        while not self.stop:
            try:
                while True:
                    ev = self.q.get_nowait()
                    ev.set()
                    self.served += 1
            except queue.Empty:
                pass
            await asyncio.sleep(0.0005)

    def ask(self, timeout=5.0):
        if self.stop:
            return True
        ev = threading.Event()
        self.q.put(ev)
        if ev.wait(timeout) or self.stop:
            return True
        samples = []
        for _ in range(20):
            fr = sys._current_frames().get(self.loop_thread)
            st = traceback.extract_stack(fr) if fr else []
            tw = [x for x in st if "/tawazi/" in x.filename]
            top = st[-1] if st else None
            idle = any("selectors" in x.filename or x.name == "_run_once" and x is top for x in st[-2:])
            if tw and not idle:
                samples.append("tawazi:%s:%s" % (tw[-1].name, top.name if top else "?"))
            elif idle:
                samples.append("idle-selector")
            else:
                samples.append("other:%s" % (top.name if top else "?"))
            time.sleep(0.01)
        self.verdicts.append(samples)
        if all(s.startswith("tawazi:") for s in samples):
            # the loop is blocked by the scheduler: the run cannot finish - record and leave the process
            from . import jobs as _jobs

            col = _jobs.CURRENT["col"]
            if col is not None:
                col.violation("C17", "event_loop_blocked_by_scheduler_while_async_thread_node_runs",
                              dict(loop_thread_stack_samples=dict(Counter(samples))), {"kind": "hang", "label": "liveness"})
            _jobs.panic(None)
        return False


def a17_case(col, rng, cidx, jobref):
    pid = "C17"
    from tawazi import AsyncDAG

    # ---- (1) same source in both flavours ---------------------------------------------------------------
    sp = sched.gen_shape(rng, nmin=2, nmax=8, mc_max=4)
    # a few setup nodes (ancestor closed, no DAG argument, no flag)
    g = S.site_graph(sp)
    setup = set()
    for i, nd in enumerate(sp["nodes"]):
        uses_param = any(a[0] == "p" for a in nd["args"])
        reused = sum(1 for m in sp["nodes"] if m["fn"] == nd["fn"]) > 1
        if not uses_param and not reused and nd["active"] is None and all(q in setup for q in g.predecessors(i)) and rng.random() < 0.25:
            setup.add(i)
            sp["fns"][nd["fn"]]["setup"] = True
    plain = {name: probes.mkprobe(name, shape=tuple(fs["shape"]) if fs.get("shape") else None) for name, fs in sp["fns"].items()}
    ids = S.node_ids(sp)
    rp = {"kind": "rerun_job", "job": dict(jobref, n_cases=cidx + 1), "source": S.render(sp)}
    outs = {}
    args = [Sym("arg", cidx)]
    ref = S.run_reference(sp, args, plain)
    # an explicit setup operation first (both flavours the same way): setup(), or executor(targets).setup()
    pre_op = None
    if setup and rng.random() < 0.45:
        pre_op = ("setup", None) if rng.random() < 0.5 else ("executor_setup", [ids[i] for i in rng.sample(range(len(ids)), rng.randint(1, min(3, len(ids))))])
    pre_seen = {}
    for fl in (False, True):
        sp2 = dict(sp, is_async=fl)
        d, _e, _p = S.build_tawazi(sp2, plain=plain)
        if pre_op is not None:
            B.reset_log()
            if pre_op[0] == "setup":
                rpre = probes.run_op("setup", (lambda: asyncio.run(d.setup())) if fl else (lambda: d.setup()))
            else:
                ex0 = d.executor(target_nodes=pre_op[1])
                rpre = probes.run_op("executor.setup", (lambda: asyncio.run(ex0.setup())) if fl else (lambda: ex0.setup()))
            lg0 = B.snapshot()
            pre_seen[fl] = (rpre[0], sorted(e["node"] for e in lg0 if e["kind"] == "FENTER"), sorted(ids[i] for i in setup if ids[i] in d.results))
        case = sched.run_case(sp2, args=args, controlled=rng.random() < 0.5, d=d, plain=plain,
                              pre_values={i: d.results[ids[i]] for i in setup if ids[i] in d.results})
        ent = Counter(e["node"] for e in case["log"] if e["kind"] == "FENTER")
        setup_res = {ids[i]: d.results.get(ids[i], "MISSING") for i in setup}
        outs[fl] = (case["res"], ent, setup_res)
        col.evaluations += 1
    if pre_op is not None:
        col.counters["c17_explicit_setup_operations_compared"] += 1
        if pre_seen.get(False) != pre_seen.get(True):
            col.violation(pid, "asyncdag_setup_operation_differs_from_dag", dict(
                operation=pre_op[0], targets=pre_op[1], dag=S.jsonable(pre_seen.get(False)), asyncdag=S.jsonable(pre_seen.get(True)), source=S.render(sp)), rp)
    col.counters["c17_flavour_pairs"] += 1
    (rs, es, ss), (ra, ea, sa) = outs[False], outs[True]
    if rs[0] != ra[0]:
        col.violation(pid, "one_flavour_raises_the_other_returns", dict(sync=short(rs, 200), asynchronous=short(ra, 200), source=S.render(sp)), rp)
    elif rs[0] == "ok":
        if not same(rs[1], ra[1]):
            col.violation(pid, "asyncdag_value_differs_from_dag", dict(sync=short(rs[1], 300), asynchronous=short(ra[1], 300), source=S.render(sp)), rp)
        if ref[0] == "ok" and not same(ref[1].result, ra[1]):
            col.violation(pid, "asyncdag_value_differs_from_reference", dict(expected=short(ref[1].result, 300), got=short(ra[1], 300), source=S.render(sp)), rp)
        if es != ea:
            col.violation(pid, "asyncdag_executes_other_nodes_than_dag", dict(sync=sorted(es.items()), asynchronous=sorted(ea.items()), source=S.render(sp)), rp)
        if setup:
            col.counters["c17_setup_result_comparisons"] += 1
            if not same(ss, sa):
                col.violation(pid, "asyncdag_records_other_setup_results_than_dag", dict(sync=short(ss, 300), asynchronous=short(sa, 300), source=S.render(sp)), rp)
    # ---- (2) K concurrent awaits with distinct nonces ---------------------------------------------------
    sp3 = dict(sp, is_async=True)
    for f in sp3["fns"].values():
        f = f  # noqa: PLW0127
    d3, _e, _p = S.build_tawazi(sp3, plain=plain)
    presetup = bool(setup) and rng.random() < 0.5
    if presetup:
        asyncio.run(d3.setup())
    elif setup:
        col.counters["c17_gathers_with_unset_setup_nodes"] += 1
    K = rng.choice([2, 5, 10, 30, 100]) if jobref.get("big") else rng.choice([2, 5, 10, 30])
    argl = [[Sym("arg", cidx, "k", k)] for k in range(K)]
    env_values = {i: d3.results[ids[i]] for i in setup if ids[i] in d3.results}
    failing_k = None
    if rng.random() < 0.4 and any(any(a == ["p", "x"] for a in nd["args"]) for nd in sp3["nodes"]):
        failing_k = rng.randrange(K)  # the await with this argument fails inside a node; the others must not notice
        probes.State.fail_args = {argl[failing_k][0]}
    bystander = {"ticks": 0, "cancelled": False}
    try:
        refs = [S.run_reference(sp3, a, plain, env_values=env_values) for a in argl]
        B.reset_log()
        probes.reset_counts()
        B.Settings.controlled = False
        B.Settings.stress_sleep = 0.001

        async def side():
            try:
                while not bystander.get("stop"):
                    bystander["ticks"] += 1
                    await asyncio.sleep(0.0005)
            except asyncio.CancelledError:
                bystander["cancelled"] = True
                raise

        async def many():
            t = asyncio.ensure_future(side())
            try:
                return await asyncio.gather(*[d3(*a) for a in argl], return_exceptions=True)
            finally:
                bystander["stop"] = True
                try:
                    await t
                except asyncio.CancelledError:
                    pass

        res = probes.run_op("gather", lambda: asyncio.run(many()))
    finally:
        probes.State.fail_args = set()
    log = B.snapshot()
    if failing_k is not None:
        col.counters["c17_gathers_with_one_failing_await"] += 1
    if bystander["cancelled"]:
        col.violation(pid, "bystander_coroutine_cancelled_by_an_await_of_the_asyncdag", dict(awaits=K, failing_await=failing_k, source=S.render(sp)), rp)
    col.generic(log, rp)
    col.evaluations += 1
    col.counters["c17_gathers"] += 1
    if res[0] != "ok":
        col.violation(pid, "gather_of_concurrent_awaits_raised", dict(exc=repr(res[1])[:300], awaits=K, source=S.render(sp)), rp)
    else:
        for k, (rf, got) in enumerate(zip(refs, res[1])):
            col.counters["c17_concurrent_awaits"] += 1
            if rf[0] != "ok":
                if isinstance(rf[1], probes.Injected) and not isinstance(got, BaseException):
                    col.violation(pid, "failing_await_returned_normally", dict(index=k, value=short(got, 200), source=S.render(sp)), rp)
                continue
            if isinstance(got, BaseException):
                col.violation(pid, "concurrent_await_raised", dict(exc=repr(got)[:300], awaits=K, failing_await=failing_k, index=k, source=S.render(sp)), rp)
            elif not same(rf[1].result, got):
                col.violation(pid, "concurrent_await_got_result_for_other_arguments_or_wrong_value", dict(
                    expected=short(rf[1].result, 300), got=short(got, 300), awaits=K, index=k, source=S.render(sp)), rp)
        # every execution entered each active call site once
        toks = [e["token"] for e in log if e["kind"] == "POOL_NEW"]
        per = Counter((e["token"], e["node"]) for e in log if e["kind"] == "FENTER")
        if any(c != 1 for c in per.values()):
            col.violation(pid, "call_site_entered_more_than_once_in_one_concurrent_await", dict(
                repeated=[(t, nn, c) for (t, nn), c in per.items() if c != 1][:5], awaits=K, source=S.render(sp)), rp)
        if len(toks) != K:
            col.counters["c17_token_count_mismatch"] += 1
    # ---- (3) the loop keeps serving other coroutines while async-thread nodes run --------------------------
    sp4 = sched.gen_shape(rng, nmin=2, nmax=6, mc_max=3, mix="async_main", flags=False)
    sp4["is_async"] = True
    lw = LoopWatch()

    def mk_live(name):
        base = probes.mkprobe(name)
        res_is_async = sp4["fns"][name]["resource"] == "async-thread"

        def fn(*a, **k):
            if res_is_async and not getattr(B.TLS, "ref", False):
                ok = lw.ask(jobref.get("live_timeout", 5.0))
                B.ev("LIVE", token=B.cur_token(), node=getattr(B.TLS, "node", None), served=ok)
            return base(*a, **k)

        fn.__name__ = fn.__qualname__ = name
        return fn

    plain4 = {name: mk_live(name) for name in sp4["fns"]}
    d4, _e, _p = S.build_tawazi(sp4, plain=plain4)
    if isinstance(d4, AsyncDAG) and any(f["resource"] == "async-thread" for f in sp4["fns"].values()):
        if rng.random() < 0.4:
            # a configuration reload that only names priorities must leave the resources (hence the loop's freedom) alone
            ids4 = S.node_ids(sp4)
            uses4 = Counter(nd["fn"] for nd in sp4["nodes"])
            named = {ids4[i]: {"priority": rng.randint(0, 5)} for i, nd in enumerate(sp4["nodes"]) if uses4[nd["fn"]] == 1 and rng.random() < 0.7}
            if named:
                d4.config_from_dict({"nodes": named})
                col.counters["c17_liveness_cases_after_config_reload"] += 1
        B.reset_log()
        B.Settings.controlled = False
        B.Settings.stress_sleep = 0.0

        async def main():
            sib = asyncio.ensure_future(lw.sibling())
            try:
                return await d4(Sym("arg", cidx, "live"))
            finally:
                lw.stop = True
                await sib

        res = probes.run_op("await_with_sibling", lambda: asyncio.run(main()))
        log = B.snapshot()
        lives = [e for e in log if e["kind"] == "LIVE"]
        col.evaluations += 1
        col.counters["c17_liveness_handshakes"] += len(lives)
        col.counters["c17_liveness_served"] += sum(1 for e in lives if e["served"])
        for e, samples in zip([e for e in lives if not e["served"]], lw.verdicts):
            c = Counter(samples)
            if all(s.startswith("tawazi:") for s in samples):
                col.violation(pid, "event_loop_blocked_by_scheduler_while_async_thread_node_runs", dict(
                    node=e["node"], loop_thread_stack_samples=dict(c), source=S.render(sp4)), rp)
            else:
                col.inconclusive.append("liveness handshake timed out but the loop thread was not inside tawazi: %s" % dict(c))
        if res[0] != "ok":
            col.counters["c17_liveness_run_raised"] += 1
    # ---- (4) the same HISTORY on one DAG object and on one AsyncDAG object (calls interleaved with reconfiguration) ------
    from tawazi.config import cfg as tcfg

    sp5 = sched.gen_shape(rng, nmin=3, nmax=7, mc_max=1, flags=False, reuse=False, pri="pow10", seq_rate=0.1)
    sp5["mc"] = 1
    g5 = S.site_graph(sp5)
    dbg = set()
    for i in range(len(sp5["nodes"])):
        if any(q in dbg for q in g5.predecessors(i)) or rng.random() < 0.25:
            dbg.add(i)
            sp5["fns"][sp5["nodes"][i]["fn"]]["debug"] = True
    ids5 = S.node_ids(sp5)
    plain5 = S.make_fns(sp5)
    steps5 = []
    for _q in range(rng.randint(2, 4)):
        r5 = rng.random()
        if r5 < 0.3:
            steps5.append(("toggle_debug", None))
        elif r5 < 0.55:
            nd5 = [ids5[i] for i in range(len(ids5)) if i not in dbg]
            steps5.append(("executor", {} if rng.random() < 0.4 or not nd5 else {"target_nodes": rng.sample(nd5, rng.randint(1, min(3, len(nd5))))}))
        else:
            # a fresh power of ten keeps compound priorities tie-free, so the order at max_concurrency=1 stays unique
            i = rng.randrange(len(ids5))
            steps5.append(("config", {"nodes": {ids5[i]: {"priority": 10 ** (len(ids5) + 1 + _q)}}}))
    traces = {}
    old_dbg = tcfg.RUN_DEBUG_NODES
    for fl in (False, True):
        tcfg.RUN_DEBUG_NODES = False
        try:
            d5, _e, _p = S.build_tawazi(dict(sp5, is_async=fl), plain=plain5)
            tr = []
            a5 = [Sym("arg", cidx, "h")]

            def call5():
                B.reset_log()
                B.Settings.controlled = False
                B.Settings.stress_sleep = 0.0
                r = probes.run_op("call", (lambda: asyncio.run(_await(d5, a5))) if fl else (lambda: d5(*a5)))
                lg = B.snapshot()
                return (r[0], [e["node"] for e in lg if e["kind"] == "FENTER"], short(r[1], 200))

            def exec5(kw5):
                # the executor entry point of either flavour (whole selection or targets): same nodes, same order
                B.reset_log()
                B.Settings.controlled = False
                ex5 = d5.executor(**kw5)
                r = probes.run_op("executor", (lambda: asyncio.run(_await(ex5, a5))) if fl else (lambda: ex5(*a5)))
                lg = B.snapshot()
                return (r[0], [e["node"] for e in lg if e["kind"] == "FENTER"], short(r[1], 200))

            tr.append(call5())
            for kind5, arg5 in steps5:
                if kind5 == "toggle_debug":
                    tcfg.RUN_DEBUG_NODES = not tcfg.RUN_DEBUG_NODES
                elif kind5 == "executor":
                    tr.append(exec5(arg5))
                    continue
                else:
                    d5.config_from_dict(arg5)
                tr.append(call5())
            traces[fl] = tr
        finally:
            tcfg.RUN_DEBUG_NODES = old_dbg
    col.evaluations += 1
    col.counters["c17_history_pairs"] += 1
    if traces.get(False) != traces.get(True):
        k5 = next(i for i, (x, y) in enumerate(zip(traces[False], traces[True])) if x != y)
        col.violation(pid, "asyncdag_diverges_from_dag_after_reconfiguration_history", dict(
            history=S.jsonable(steps5), first_difference_at_call=k5, dag=S.jsonable(traces[False][k5]), asyncdag=S.jsonable(traces[True][k5]),
            source=S.render(sp5), debug=[ids5[i] for i in sorted(dbg)]), rp)
    # ---- (5) the loop stays free when one async-thread node FAILS while a sibling is still running --------------------------
    lw2 = LoopWatch()
    failed_evt = threading.Event()

    def mk_f(name, role):
        base = probes.mkprobe(name)

        def fn(*a, **k):
            if getattr(B.TLS, "ref", False):
                return base(*a, **k)
            if role == "fail":
                time.sleep(0.02)
                failed_evt.set()
                raise probes.Injected(name)
            ok1 = lw2.ask(jobref.get("live_timeout", 5.0))
            failed_evt.wait(5.0)
            time.sleep(0.05)
            ok2 = lw2.stop or lw2.ask(jobref.get("live_timeout", 5.0))
            B.ev("LIVE", token=B.cur_token(), node=name, served=bool(ok1 and ok2))
            return base(*a, **k)

        fn.__name__ = fn.__qualname__ = name
        return fn

    from tawazi import Resource, dag, xn

    f_fail = xn(resource=Resource.async_thread, priority=5)(mk_f("lf_fail", "fail"))
    f_run = xn(resource=Resource.async_thread, priority=1)(mk_f("lf_run", "run"))

    def live_fail_prog(x):
        a = f_run(x)
        b = f_fail(x)
        return a, b

    d6 = dag(max_concurrency=2, is_async=True)(live_fail_prog)
    B.reset_log()

    async def main6():
        sib = asyncio.ensure_future(lw2.sibling())
        try:
            return await d6(Sym("arg", cidx, "lf"))
        finally:
            lw2.stop = True
            try:
                while True:
                    lw2.q.get_nowait().set()
            except queue.Empty:
                pass
            await sib

    res6 = probes.run_op("await_failing_with_sibling", lambda: asyncio.run(main6()))
    col.evaluations += 1
    col.counters["c17_liveness_under_failure_cases"] += 1
    if res6[0] == "ok":
        col.violation(pid, "await_returned_normally_although_node_failed", dict(value=short(res6[1])), rp)
    if cidx % 8 == 3:
        a17_capacity(col, pid, rng, cidx, rp)
    col.hashes.add(S.spec_hash({"s": S.render(sp), "k": K, "l": S.render(sp4)}))
    if cidx % 15 == 0:
        col.sample(dict(source=S.render(sp), setup=[ids[i] for i in sorted(setup)], concurrent_awaits=K, liveness_program=S.render(sp4),
                        handshakes_served=lw.served))


def a17_capacity(col, pid, rng, cidx, rp):
    """(6) "any number of concurrent awaits": more awaits than the event loop's DEFAULT executor has workers, each with one
    async-thread node that only returns once ALL of them are inside their function.  Executions own their pools, so nothing
    outside the DAG's own max_concurrency may bound how many awaits make progress together."""
    import os

    from tawazi import Resource, dag, xn

    default_workers = min(32, (os.cpu_count() or 1) + 4)
    N = default_workers + rng.randint(3, 8)
    lock = threading.Lock()
    entered = []
    all_in = threading.Event()

    def body(x):
        with lock:
            entered.append(x)
            if len(entered) == N:
                all_in.set()
        ok = all_in.wait(15.0)
        return ("cap", x, ok)

    body.__name__ = body.__qualname__ = "cap_node%d" % cidx
    node = xn(resource=Resource.async_thread)(body)

    def cap_prog(x):
        return node(x)

    cap_prog.__name__ = cap_prog.__qualname__ = "cap_prog%d" % cidx
    d = dag(max_concurrency=1, is_async=True)(cap_prog)
    B.reset_log()

    async def main():
        return await asyncio.gather(*[d(i) for i in range(N)])

    res = probes.run_op("capacity_gather", lambda: asyncio.run(main()))
    col.evaluations += 1
    col.counters["c17_capacity_cases"] += 1
    col.counters["c17_capacity_concurrent_awaits"] += N
    w = dict(concurrent_awaits=N, loop_default_executor_workers=default_workers, entered_together=len(entered))
    if res[0] != "ok":
        col.violation(pid, "concurrent_awaits_raised", dict(w, exc=repr(res[1])[:300]), rp)
        return
    timed_out = [r for r in res[1] if not r[2]]
    if sorted(r[1] for r in res[1]) != list(range(N)) or [r[1] for r in res[1]] != list(range(N)):
        col.violation(pid, "concurrent_await_got_foreign_result", dict(w, values=short(res[1])), rp)
    elif timed_out:
        first_wave = N - len(timed_out) if len(timed_out) < N else len(entered)
        if len(timed_out) == N and len({len(entered)}) == 1 and len(entered) >= N:
            # everybody entered, but only after the deadline of the first ones: a (very) loaded machine, not a capacity limit
            col.inconclusive.append("c17 capacity phase: all %d awaits entered, but later than the 15 s barrier deadline" % N)
        else:
            col.violation(pid, "concurrent_awaits_limited_by_something_other_than_their_own_max_concurrency", dict(
                w, awaits_that_waited_in_vain=len(timed_out), note="every await has its own execution with max_concurrency=1; the nodes "
                "of %d awaits must be able to be inside their functions together" % N, first_wave=first_wave), rp)


async def _await(f, args):
    return await f(*args)


@job("async17")
def job_async17(j):
    rng = random.Random(j["seed"])
    col = Collector()
    for c in range(j["n_cases"]):
        a17_case(col, rng, c, j)
    return col.result()
