"""Harness-supplied node functions (probes), the reference wrappers and the client-operation recorder."""
from __future__ import annotations

import itertools
import threading
from collections import Counter

from . import bootstrap as B
from .sym import Sym


class Injected(Exception):
    """The marked exception raised by a probe that a fault plan tells to fail.  The failing node is kept in `.node`;
    what `args` / `str()` look like varies with the node (arg-less like a bare `raise ValueError` or a failed assert,
    several args, text full of format directives) - wrapping code must cope with every exception a user function raises."""

    def __init__(self, node=None, style=None):
        self.node = node
        if style is None:
            import zlib

            style = zlib.crc32(repr(node).encode()) % 5
        self.style = style
        if style in (0, 1):
            super().__init__(node)
        elif style == 2:
            super().__init__()
        elif style == 3:
            super().__init__(node, 7, {"k": "%s {} %d"})
        else:
            super().__init__("%%s {0} {x} %%(y)d \\ %s" % (node,))

    def __reduce__(self):
        return (type(self), (self.node, self.style))


class InjectedBase(BaseException):
    """Injected failure that is NOT an Exception (e.g. a cancellation-like error raised inside a node)."""

    def __init__(self, node=None):
        self.node = node
        super().__init__(node)


class LowLevel(OSError):
    """What a failing node function was handling when it raised its own error (`raise Injected(...) from low_level`)."""


# What a user function raises is not always a plain Exception subclass: the CLASS of an injected failure varies with the node, too.
# StopIteration (a `next()` on an exhausted iterator escaping the function) is special to generators, coroutines and asyncio
# futures; KeyError / OSError have reprs and constructors of their own; CancelledError is what a cancelled inner await raises.
class InjectedStop(Injected, StopIteration):
    pass


class InjectedLookup(Injected, KeyError):
    pass


class InjectedOS(Injected, TimeoutError):
    pass


import asyncio as _asyncio  # noqa: E402


class InjectedCancel(InjectedBase, _asyncio.CancelledError):
    pass


FAULT_CLASSES = [Injected, Injected, Injected, Injected, InjectedStop, InjectedLookup, InjectedOS]
FAULT_BASE_CLASSES = [InjectedBase, InjectedBase, InjectedCancel]
FAULT_CLASS_COUNTS: Counter = Counter()


def fault_for(node, base=False):
    import zlib

    classes = FAULT_BASE_CLASSES if base else FAULT_CLASSES
    cls = classes[zlib.crc32(("cls:%r" % (node,)).encode()) % len(classes)]
    FAULT_CLASS_COUNTS[cls.__name__] += 1
    return cls(node)


class State:
    fault_base = False  # raise InjectedBase instead of Injected for node faults
    faults: set = set()  # node ids (tawazi side) that must raise
    fail_fns: set = set()  # function names that raise on every call, on BOTH sides (reference and tawazi)
    fail_args: set = set()  # symbolic leaves: a probe that receives one of them as a direct argument raises (both sides)
    ref_faults: set = set()  # (fn name, k-th call) for the reference side
    counts: Counter = Counter()  # tawazi-side entries per fn name
    ref_counts: Counter = Counter()
    ref_calls: list = []  # (fn, args, kwargs, value) in reference order
    inv = itertools.count(1)  # global invocation numbers for setup probes
    lock = threading.Lock()


def reset_counts():
    State.counts = Counter()
    State.ref_counts = Counter()
    State.ref_calls = []


def alias_pattern(a, k):
    """Which of the identity-carrying arguments are ONE object: (("alias", (0, 0, 2)),) when the first two are - nothing when
    all are different objects.  A function may depend on it (`left is right`, in-place updates seen through an alias)."""
    from .sym import Handle

    hs = [x for x in list(a) + [k[q] for q in sorted(k)] if isinstance(x, Handle)]
    pat = tuple(next(j for j in range(len(hs)) if hs[j] is hs[i]) for i in range(len(hs)))
    return (("alias", pat),) if pat != tuple(range(len(hs))) else ()


def shaped(base, shape, args=()):
    if shape is None:
        return base
    if shape[0] == "same":
        # a function that hands its first identity-carrying argument on (validate(x) -> x): two results are then ONE object
        from .sym import Handle

        for x in args:
            if isinstance(x, Handle):
                return x
        return Handle(Sym("handle", base))
    if shape[0] == "touchy":
        from .sym import Touchy

        return Touchy(base)  # a value that may only be passed on
    if shape[0] == "lazy":
        from .sym import LazySeq

        return LazySeq(Sym("lazy", base), shape[1])  # every seq[i] is a fresh, short-lived object
    if shape[0] == "handle":
        from .sym import Handle

        return Handle(Sym("handle", base))  # an object whose identity matters: consumers get this very object
    if shape[0] == "none":
        return None  # a function that legitimately returns None (side-effect only / "nothing found")
    if shape[0] == "tuple":
        return tuple(Sym("el", base, i) for i in range(shape[1]))
    if shape[0] == "list":
        return [Sym("el", base, i) for i in range(shape[1])]
    if shape[0] == "dict":
        return {"a": Sym("el", base, "a"), "b": [Sym("el", base, "b0"), Sym("el", base, "b1")]}
    if shape[0] == "tdict":
        return {("r", "c"): Sym("el", base, "rc"), "r": {"c": Sym("el", base, "r.c")}, (1, 0): Sym("el", base, "10"),
                1: [Sym("el", base, "1.0")]}
    raise AssertionError(shape)


def mkprobe(name, shape=None, setup=False):
    """A probe: logs FENTER/FEXIT with the exact argument objects, parks when controlled, returns a term."""

    def fn(*a, **k):
        ref = getattr(B.TLS, "ref", False)
        if ref:
            with State.lock:
                State.ref_counts[name] += 1
                idx = State.ref_counts[name] - 1
            if (name, idx) in State.ref_faults or name in State.fail_fns or (State.fail_args and any(x in State.fail_args for x in a if isinstance(x, Sym))):
                raise Injected(name)
            base = Sym(name, a, tuple(sorted(k.items())), *alias_pattern(a, k))
            if setup:
                base = Sym(name, a, tuple(sorted(k.items())), ("inv", "ref"), *alias_pattern(a, k))
            val = shaped(base, shape, a)
            State.ref_calls.append((name, a, dict(k), val))
            return val
        node = getattr(B.TLS, "node", None)
        ex = B.cur_exec()
        tok = B.cur_token()
        B.REACH["FENTER"] += 1
        B.ev("FENTER", token=tok, node=node, fn=name, args=a, kwargs=dict(k), ctx=B.REQ.get())
        from .sym import copies_in

        for x in copies_in(a, k):
            B.REACH["COPY_DELIVERED"] += 1
            B.ev("COPY_DELIVERED", token=tok, node=node, fn=name, value=x)
        with State.lock:
            State.counts[name] += 1
        B.park_here()
        if (node is not None and node in State.faults) or name in State.fail_fns or (
                State.fail_args and any(x in State.fail_args for x in a if isinstance(x, Sym))):
            B.ev("FEXIT", token=tok, node=node, fn=name, ok=False)
            exc = fault_for(node, base=State.fault_base)
            import zlib

            if zlib.crc32(("chain:%r" % (node,)).encode()) % 3 == 0:
                # the node's exception has a cause of its own: the call still carries the NODE's exception as its cause
                FAULT_CLASS_COUNTS["raised_from_a_lower_level_exception"] += 1
                raise exc from LowLevel("low-level failure behind the failure of %r" % (node,))
            raise exc
        if setup:
            base = Sym(name, a, tuple(sorted(k.items())), ("inv", next(State.inv)), *alias_pattern(a, k))
        else:
            base = Sym(name, a, tuple(sorted(k.items())), *alias_pattern(a, k))
        val = shaped(base, shape, a)
        B.ev("FEXIT", token=tok, node=node, fn=name, ok=True, value=val)
        return val

    fn.__name__ = fn.__qualname__ = name
    fn.__module__ = "twzprog"
    return fn


def refwrap(fn, unpack_to=None):
    """Plain-Python meaning of a decorated function call (the property's wording): honours twz_active
    (-> None), ignores twz_tag, applies twz_unpack_to."""

    def w(*a, twz_active=True, twz_tag=None, twz_unpack_to=None, **k):
        if not twz_active:
            n = twz_unpack_to or unpack_to
            return None if not n else tuple(None for _ in range(n))
        return fn(*a, **k)

    w.__name__ = getattr(fn, "__name__", "w")
    return w


class RefMode:
    def __enter__(self):
        B.TLS.ref = True
        return self

    def __exit__(self, *a):
        B.TLS.ref = False


def run_ref(thunk):
    """Evaluate the reference; returns ("ok", value) / ("exc", exception)."""
    with RefMode():
        try:
            return ("ok", thunk())
        except BaseException as e:  # noqa: BLE001
            return ("exc", e)


CURRENT_OPS: dict = {}  # thread ident -> (label, start time): read by the worker's hang watchdog


def run_op(label, thunk, **info):
    """Client boundary: OP_BEGIN before invoking, OP_END after the reply; all gates opened afterwards."""
    import time

    B.new_epoch()
    req = "req-%d" % next(B._ids)
    rtok = B.REQ.set(req)
    s0 = B.ev("OP_BEGIN", op=label, req=req, **info)
    me = threading.get_ident()
    CURRENT_OPS[me] = (label, time.monotonic())
    try:
        try:
            val = thunk()
        finally:
            B.REQ.reset(rtok)
    except BaseException as e:  # noqa: BLE001
        CURRENT_OPS.pop(me, None)
        B.ev("OP_END", op=label, ok=False, exc=type(e).__name__, begin=s0)
        B.close_all()
        return ("exc", e)
    CURRENT_OPS.pop(me, None)
    B.ev("OP_END", op=label, ok=True, begin=s0)
    B.close_all()
    return ("ok", val)
