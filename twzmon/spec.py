"""Shape specs: a JSON-serialisable description of one DAG program, rendered to SOURCE TEXT that is
exec-ed twice (tawazi side: names bound to xn(...) probes; reference side: plain callables).

spec = {
  "name": "prog", "params": ["x"], "defaults": {"y": 5},
  "fns":   {fname: {priority, is_sequential, resource, setup, debug, shape, unpack_to, tag}},
  "nodes": [{"fn": fname, "args": [ARG], "kwargs": {k: ARG}, "active": ARG|None, "tag": str|None}],
  "ret":   [kind, [ARG...]] | [kind, {key: ARG}]   kind in none|single|tuple|list|dict
  "mc": int, "is_async": bool
}
ARG = ["n", j, [keys...]] (result of call site j, indexed) | ["p", name] | ["c", const]
"""
from __future__ import annotations

import dataclasses
import json
import zlib
from collections import Counter

import networkx as nx

from . import probes
from .sym import Sym


class Absent:
    """Value of a call site that is not part of the executed selection (tawazi: id missing in results
    -> UsageExecNode.result gives None without applying the key path)."""

    def __getitem__(self, _k):
        return self

    def __bool__(self):
        return False

    def __iter__(self):
        raise TypeError("Absent is not iterable")

    def __repr__(self):
        return "ABSENT"


ABSENT = Absent()


def deabs(v):
    if isinstance(v, Absent):
        return None
    if isinstance(v, tuple):
        return tuple(deabs(e) for e in v)
    if isinstance(v, list):
        return [deabs(e) for e in v]
    if isinstance(v, dict):
        return {k: deabs(e) for k, e in v.items()}
    return v


def node_ids(spec, prefix=""):
    """Predicted tawazi ids of the call sites: `f`, `f<<1>>`, ... in build order.  With spec["nest"] a block of consecutive call
    sites lives in an inner DAG: their ids are `<inner>.f`, `<inner>.f<<1>>` (numbered inside the inner DAG), the others are numbered
    among the outer call sites only."""
    nest = spec.get("nest")
    seen, seen_in = {}, {}
    out = []
    for i, nd in enumerate(spec["nodes"]):
        # (two DIFFERENT decorated functions may carry one qualified name - made by a factory, defined in two modules: their
        # usages are numbered together, `alias_of` names the function whose name this one carries)
        qn = spec["fns"][nd["fn"]].get("alias_of", nd["fn"])
        if nest and nest["first"] <= i <= nest["last"]:
            k = seen_in.get(qn, 0)
            seen_in[qn] = k + 1
            out.append(prefix + nest["name"] + "." + (qn if k == 0 else "%s<<%d>>" % (qn, k)))
            continue
        k = seen.get(qn, 0)
        seen[qn] = k + 1
        out.append(prefix + (qn if k == 0 else "%s<<%d>>" % (qn, k)))
    return out


def _twin(fn, qualname):
    """Another function object that carries the (qualified) name `qualname`."""

    def twin(*a, **k):
        return fn(*a, **k)

    twin.__name__ = twin.__qualname__ = qualname
    twin.__module__ = getattr(fn, "__module__", "twzprog")
    return twin


def arg_src(a):
    if a[0] == "n":
        return "v%d" % a[1] + "".join("[%r]" % k for k in a[2])
    if a[0] == "u":  # element a[2] of unpacked call site a[1]
        return "v%d_%d" % (a[1], a[2])
    if a[0] == "p":
        return a[1] + "".join("[%r]" % k for k in (a[2] if len(a) > 2 else []))  # a DAG argument, possibly indexed
    if a[0] == "c":
        return repr(a[1])
    if a[0] == "g":  # a named constant object (same object on the tawazi side and in the reference): identity-sensitive, uncopyable
        return a[1]
    raise AssertionError(a)


def nestable(spec, first, last, allow_debug=False):
    """May the call sites first..last be moved into an inner DAG?  (plain functions, no unpacking in or around the block)"""
    for i in range(first, last + 1):
        fs = spec["fns"][spec["nodes"][i]["fn"]]
        if fs.get("unpack_to") or fs.get("setup") or (fs.get("debug") and not allow_debug):
            return False
    for nd in spec["nodes"]:
        for a in list(nd.get("args", [])) + list(nd.get("kwargs", {}).values()) + ([nd["active"]] if nd.get("active") else []):
            if a[0] == "u" and (first <= a[1] <= last):
                return False
    for i in range(first, last + 1):
        nd = spec["nodes"][i]
        for a in list(nd.get("args", [])) + list(nd.get("kwargs", {}).values()) + ([nd["active"]] if nd.get("active") else []):
            if a[0] == "u":
                return False
    return True


def _site_line(spec, i, nd, src_of):
    parts = [src_of(a) for a in nd.get("args", [])]
    parts += ["%s=%s" % (k, src_of(a)) for k, a in nd.get("kwargs", {}).items()]
    if nd.get("active") is not None:
        parts.append("twz_active=%s" % src_of(nd["active"]))
    if nd.get("tag") is not None:
        parts.append("twz_tag=%r" % (nd["tag"],))
    unp = spec["fns"][nd["fn"]].get("unpack_to")
    if unp:
        lhs = ", ".join("v%d_%d" % (i, j) for j in range(unp)) + ("," if unp == 1 else "")
    else:
        lhs = "v%d" % i
    return "    %s = c%d(%s)" % (lhs, i, ", ".join(parts))


def render_nested(spec):
    """Source with the block spec["nest"] = {name, first, last} written as an inner DAG that the describing function calls.
    Returns (text, {site: line number})."""
    nest = spec["nest"]
    a0, b0, iname = nest["first"], nest["last"], nest["name"]
    ext, ext_idx = [], {}

    def inner_src(a):
        if (a[0] == "n" and a[1] < a0) or a[0] == "p":
            key = json.dumps(a)
            if key not in ext_idx:
                ext_idx[key] = len(ext)
                ext.append(a)
            return "e%d" % ext_idx[key]
        return arg_src(a)

    body = [_site_line(spec, i, spec["nodes"][i], inner_src) for i in range(a0, b0 + 1)]
    used = set()
    for i, nd in enumerate(spec["nodes"]):
        if i > b0:
            for x in list(nd.get("args", [])) + list(nd.get("kwargs", {}).values()) + ([nd["active"]] if nd.get("active") else []):
                if x[0] == "n" and a0 <= x[1] <= b0:
                    used.add(x[1])
    kind, items = spec["ret"]
    for x in (items.values() if isinstance(items, dict) else items):
        if x[0] == "n" and a0 <= x[1] <= b0:
            used.add(x[1])
    outs = sorted(used) or list(range(a0, b0 + 1))
    lines = ["def %s(%s):" % (iname, ", ".join("e%d" % q for q in range(len(ext))))]
    line_of = {}
    for i, ln in zip(range(a0, b0 + 1), body):
        lines.append(ln)
        line_of[i] = len(lines)
    lines.append("    return v%d" % outs[0] if len(outs) == 1 else "    return (%s)" % "".join("v%d, " % o for o in outs))
    lines.append("%s = __mkdag(%s)" % (iname, iname))
    params = spec.get("params", [])
    defaults = spec.get("defaults", {})
    sig = ", ".join(p if p not in defaults else "%s=%r" % (p, defaults[p]) for p in params)
    lines.append("def %s(%s):" % (spec["name"], sig))
    for i, nd in enumerate(spec["nodes"]):
        if i == a0:
            lhs = "v%d" % outs[0] if len(outs) == 1 else "".join("v%d, " % o for o in outs)
            lines.append("    %s = %s(%s)" % (lhs, iname, ", ".join(arg_src(x) for x in ext)))
        if a0 <= i <= b0:
            continue
        lines.append(_site_line(spec, i, nd, arg_src))
        line_of[i] = len(lines)
    lines.append(_ret_line(spec))
    return "\n".join(lines) + "\n", line_of


def _ret_line(spec):
    kind, items = spec["ret"]
    if kind == "none":
        return "    return None"
    if kind == "single":
        return "    return %s" % arg_src(items[0])
    if kind == "tuple":
        return "    return (%s)" % "".join(arg_src(a) + ", " for a in items)
    if kind == "list":
        return "    return [%s]" % ", ".join(arg_src(a) for a in items)
    if kind == "dict":
        return "    return {%s}" % ", ".join("%r: %s" % (k, arg_src(a)) for k, a in items.items())
    raise AssertionError(kind)


def site_lines(spec):
    """{site: line number in the compiled source} (one call site per line)."""
    if spec.get("nest"):
        return render_nested(spec)[1]
    return {i: i + 2 for i in range(len(spec["nodes"]))}


def render(spec):
    if spec.get("nest"):
        return render_nested(spec)[0]
    params = spec.get("params", [])
    defaults = spec.get("defaults", {})
    sig = ", ".join(p if p not in defaults else "%s=%r" % (p, defaults[p]) for p in params)
    lines = ["def %s(%s):" % (spec["name"], sig)]
    for i, nd in enumerate(spec["nodes"]):
        parts = [arg_src(a) for a in nd.get("args", [])]
        parts += ["%s=%s" % (k, arg_src(a)) for k, a in nd.get("kwargs", {}).items()]
        if nd.get("active") is not None:
            parts.append("twz_active=%s" % arg_src(nd["active"]))
        if nd.get("tag") is not None:
            parts.append("twz_tag=%r" % (nd["tag"],))
        unp = spec["fns"][nd["fn"]].get("unpack_to")
        if unp:
            lhs = ", ".join("v%d_%d" % (i, j) for j in range(unp)) + ("," if unp == 1 else "")
        else:
            lhs = "v%d" % i
        lines.append("    %s = c%d(%s)" % (lhs, i, ", ".join(parts)))
    kind, items = spec["ret"]
    if kind == "none":
        lines.append("    return None")
    elif kind == "single":
        lines.append("    return %s" % arg_src(items[0]))
    elif kind == "tuple":
        lines.append("    return (%s)" % "".join(arg_src(a) + ", " for a in items))
    elif kind == "list":
        lines.append("    return [%s]" % ", ".join(arg_src(a) for a in items))
    elif kind == "dict":
        lines.append("    return {%s}" % ", ".join("%r: %s" % (k, arg_src(a)) for k, a in items.items()))
    else:
        raise AssertionError(kind)
    return "\n".join(lines) + "\n"


def deps_of(nd):
    """{(j, kind)} call sites used by this call site."""
    out = []
    for a in nd.get("args", []):
        if a[0] in ("n", "u"):
            out.append((a[1], "pos"))
    for a in nd.get("kwargs", {}).values():
        if a[0] in ("n", "u"):
            out.append((a[1], "kw"))
    a = nd.get("active")
    if a is not None and a[0] in ("n", "u"):
        out.append((a[1], "flag"))
    return out


def site_graph(spec):
    g = nx.DiGraph()
    g.add_nodes_from(range(len(spec["nodes"])))
    for i, nd in enumerate(spec["nodes"]):
        for j, _k in deps_of(nd):
            g.add_edge(j, i)
    return g


def cp_spec(spec):
    """Documented compound priority: own + sum over the SET of descendants (monitor's own computation)."""
    g = site_graph(spec)
    pr = [spec["fns"][nd["fn"]].get("priority", 0) for nd in spec["nodes"]]
    return {i: pr[i] + sum(pr[d] for d in nx.descendants(g, i)) for i in g.nodes}


def closure(spec, roots=None, exclude=None, targets=None):
    """The documented three-step closure on the call-site graph. Returns set of indices or None when
    the triple is invalid (target removed / not in graph)."""
    g = site_graph(spec)
    sel = set(g.nodes)
    if roots is not None:
        sel = set()
        for r in roots:
            sel |= nx.descendants(g, r) | {r}
    h = g.subgraph(sel).copy()
    if exclude is not None:
        rem = set()
        for x in exclude:
            if x in h:
                rem |= nx.descendants(h, x) | {x}
        h.remove_nodes_from(rem)
    if targets is not None:
        if any(t not in h for t in targets):
            return None
        keep = set(targets)
        for t in targets:
            keep |= nx.ancestors(h, t)
        h = h.subgraph(keep).copy()
    return set(h.nodes)


def make_fns(spec):
    """One probe per function spec (shared by all its call sites)."""
    return {
        name: probes.mkprobe(name, shape=tuple(fs["shape"]) if fs.get("shape") else None, setup=bool(fs.get("setup")))
        for name, fs in spec["fns"].items()
    }


def named_constants():
    from .sym import Opaque

    global _NAMED
    if _NAMED is None:
        _NAMED = {"OPQ_A": Opaque("named", "A"), "OPQ_B": Opaque("named", "B")}
    return _NAMED


_NAMED = None
XN_DEFAULTS = dict(priority=0, is_sequential=False, setup=False, debug=False, tag=None, unpack_to=None)
DECL_FORMS = Counter()


def _form(name, salt, n):
    return zlib.crc32(("%s|%s" % (name, salt)).encode()) % n


@dataclasses.dataclass
class CallableRecord:
    """A node function that is a callable DATACLASS instance (a configured step object): tawazi names the node after the
    instance's `__qualname__`."""

    fn: object

    def __call__(self, *a, **k):
        return self.fn(*a, **k)


def declare_xn(fn, kw, name, salt=""):
    """Every documented way of turning a function into a node: `@xn(**kw)`, the call form `xn(f, **kw)`, both with only
    the non-default options spelled out, and bare `xn(f)` / `@xn` when there is nothing to say."""
    from tawazi import xn
    from tawazi.config import cfg

    # what may be left unsaid depends on the PROCESS defaults (environment variables TAWAZI_DEFAULT_RESOURCE / TAWAZI_IS_SEQUENTIAL)
    dflt = dict(XN_DEFAULTS, is_sequential=bool(cfg.TAWAZI_IS_SEQUENTIAL), resource=cfg.TAWAZI_DEFAULT_RESOURCE)
    short = {k: v for k, v in kw.items() if not (k in dflt and v == dflt[k])}
    if len(short) < len(kw):
        DECL_FORMS["options_left_to_process_defaults"] += 1
    form = _form(name, salt, 6)
    DECL_FORMS["xn_form_%d" % form] += 1
    if form == 5:
        rec = CallableRecord(fn)
        rec.__qualname__ = getattr(fn, "__qualname__", name)
        rec.__name__ = getattr(fn, "__name__", name)
        rec.__module__ = getattr(fn, "__module__", "twzprog")
        return xn(**kw)(rec)
    if form == 4:
        # a functools.partial as node function (supported: the node is named after the wrapped function)
        import functools

        return xn(**kw)(functools.partial(fn))
    if form == 0:
        return xn(**kw)(fn)
    if form == 1:
        return xn(fn, **kw)
    if form == 2:
        return xn(**short)(fn) if short else xn(fn)
    return xn(fn, **short)


def declare_dag(fn, kw, name, salt=""):
    from tawazi import dag

    short = {k: v for k, v in kw.items() if not (k == "max_concurrency" and v == 1) and not (k == "is_async" and v is False)}
    form = _form("dag:" + name, salt, 4)
    DECL_FORMS["dag_form_%d" % form] += 1
    if form == 0:
        return dag(**kw)(fn)
    if form == 1:
        return dag(fn, **kw)
    if form == 2:
        return dag(**short)(fn) if short else dag(fn)
    return dag(fn, **short)


def build_tawazi(spec, plain=None, dag_kwargs=None, extra_env=None, wrap_site=None, inner_dag=None):
    """exec the source with names bound to xn(...) probes; returns (dag object, env)."""
    from tawazi import Resource, dag, xn

    plain = plain or make_fns(spec)
    xns = {}
    for name, fs in spec["fns"].items():
        kw = dict(
            priority=fs.get("priority", 0),
            is_sequential=bool(fs.get("is_sequential", False)),
            resource=Resource(fs.get("resource", "thread")),
            setup=bool(fs.get("setup", False)),
            debug=bool(fs.get("debug", False)),
        )
        if fs.get("unpack_to"):
            kw["unpack_to"] = fs["unpack_to"]
        if fs.get("tag") is not None:
            t = fs["tag"]
            kw["tag"] = tuple(t) if isinstance(t, list) else t
        body = _twin(plain[name], fs["alias_of"]) if fs.get("alias_of") else plain[name]
        xns[name] = declare_xn(body, kw, name, salt=spec.get("salt", spec.get("name", "")) + str(len(spec["nodes"])))
    env = {"c%d" % i: xns[nd["fn"]] for i, nd in enumerate(spec["nodes"])}
    env.update(named_constants())
    if spec.get("nest"):
        if inner_dag is not None:
            env["__mkdag"] = lambda f: inner_dag  # the SAME inner DAG object nested in one more outer DAG
        else:
            env["__mkdag"] = lambda f: declare_dag(f, dict(max_concurrency=spec["nest"].get("mc", 1)), spec["nest"]["name"], salt=str(len(spec["nodes"])))
    if extra_env:
        env.update(extra_env)
    for i, w in (wrap_site or {}).items():
        env["c%d" % i] = w(env["c%d" % i])
    src = render(spec)
    exec(compile(src, "<%s>" % spec["name"], "exec"), env)  # noqa: S102
    kw = dict(max_concurrency=spec.get("mc", 1), is_async=bool(spec.get("is_async", False)))
    if dag_kwargs:
        kw.update(dag_kwargs)
    d = declare_dag(env[spec["name"]], kw, spec["name"], salt=str(len(spec["nodes"])) + str(spec.get("mc", 1)))
    return d, env, plain


class RefInfo:
    def __init__(self):
        self.active = {}  # site -> bool (entered its function)
        self.args = {}  # site -> (args, kwargs)
        self.value = {}  # site -> value
        self.result = None


def run_reference(spec, args, plain, enabled=None, env_values=None, ref_faults=()):
    """Evaluate the same source with plain callables.

    enabled: set of call-site indexes that take part (None = all); others yield ABSENT.
    env_values: {site: value} pre-computed values (setup results recorded earlier) that are reused.
    Returns ("ok", RefInfo) or ("exc", exception).
    """
    info = RefInfo()
    env = dict(named_constants())
    env["__mkdag"] = lambda f: f
    env_values = env_values or {}

    def mk(i, nd):
        fs = spec["fns"][nd["fn"]]
        unp = fs.get("unpack_to")
        fn = plain[nd["fn"]]

        def site(*a, twz_active=True, twz_tag=None, twz_unpack_to=None, **k):
            n = twz_unpack_to or unp
            if i in env_values:
                info.active[i] = False
                info.value[i] = env_values[i]
                return env_values[i]
            if enabled is not None and i not in enabled:
                info.active[i] = False
                info.value[i] = ABSENT
                return tuple(ABSENT for _ in range(n)) if n else ABSENT
            if not deabs(twz_active):
                info.active[i] = False
                info.value[i] = None
                return tuple(None for _ in range(n)) if n else None
            a2, k2 = deabs(a), deabs(k)
            info.active[i] = True
            info.args[i] = (a2, k2)
            if i in ref_faults:
                raise probes.Injected(i)
            v = fn(*a2, **k2)
            info.value[i] = v
            return v

        return site

    for i, nd in enumerate(spec["nodes"]):
        env["c%d" % i] = mk(i, nd)
    exec(compile(render(spec), "<ref %s>" % spec["name"], "exec"), env)  # noqa: S102
    with probes.RefMode():
        try:
            info.result = deabs(env[spec["name"]](*args))
        except BaseException as e:  # noqa: BLE001
            return ("exc", e)
    return ("ok", info)


def spec_hash(spec):
    import zlib

    s = json.dumps(spec, sort_keys=True, default=repr)
    return "%08x" % zlib.crc32(s.encode())


def jsonable(x):
    if isinstance(x, Sym):
        return repr(x)
    if isinstance(x, (list, tuple)):
        return [jsonable(e) for e in x]
    if isinstance(x, dict):
        return {str(k): jsonable(v) for k, v in x.items()}
    if isinstance(x, (str, int, float, bool)) or x is None:
        return x
    return repr(x)


SPELL_COUNTS: Counter = Counter()


def spell_selections(kw):
    """A selection is "an iterable of aliases": about three selections in eight are handed over as a one-shot iterator, a
    generator or a tuple instead of a list (decided by the content, so that a replay spells it the same way).  A library that
    walks the iterable twice sees an empty selection the second time."""
    out = dict(kw)
    for k in ("target_nodes", "exclude_nodes", "root_nodes", "cache_deps_of"):
        v = out.get(k)
        if isinstance(v, list):
            h = zlib.crc32(repr((k, [a if isinstance(a, (str, tuple)) else type(a).__name__ for a in v])).encode()) % 8
            if h == 0:
                out[k] = iter(list(v))
                SPELL_COUNTS["selection_given_as_one_shot_iterator"] += 1
            elif h == 1:
                out[k] = (a for a in list(v))
                SPELL_COUNTS["selection_given_as_generator"] += 1
            elif h == 2:
                out[k] = tuple(v)
                SPELL_COUNTS["selection_given_as_tuple"] += 1
    return out
