"""(job kinds registered here)"""
