"""C19: compose(inputs, outputs)."""
from __future__ import annotations

import random
import warnings

import networkx as nx

from . import bootstrap as B
from . import probes, spec as S
from .histjobs import observed, op_call, op_setup
from .jobs import REGISTRY, Collector, job
from .sym import Sym, same, short


def gen_comp_spec(rng):
    from .sched import gen_shape

    if rng.random() < 0.03:
        # a LARGE pipeline (90..130 call sites, well over a hundred ExecNodes with their constants): compose walks it like a small one
        sp = gen_shape(rng, nmin=90, nmax=130, flags=True, reuse=True, mc_max=3, seq_rate=0.1, max_deps=2)
    else:
        sp = gen_shape(rng, nmin=2, nmax=7, flags=True, reuse=True, mc_max=3, seq_rate=0.1)
    npar = rng.randint(0, 3)
    ndef = rng.randint(0, npar)
    # (parameter names in no particular order: declaration order is what counts, not the alphabet - p9 before p10, zz before aa)
    sp["params"] = rng.sample(["zz", "p0", "aa", "m5", "p10", "p9"], npar) if rng.random() < 0.6 else ["p%d" % i for i in range(npar)]
    sp["defaults"] = {sp["params"][i]: (None if rng.random() < 0.3 else rng.choice([("D", i), 0, ""])) for i in range(npar - ndef, npar)}
    for nd in sp["nodes"]:
        nd["args"] = [a for a in nd["args"] if a[0] != "p"]
        for p in sp["params"]:
            if rng.random() < 0.25:
                if rng.random() < 0.3:
                    nd["kwargs"]["kw_" + p] = ["p", p]
                else:
                    nd["args"].append(["p", p])
    # some setup nodes (ancestor closed, no DAG params, no flags)
    g = S.site_graph(sp)
    setup = set()
    for i in range(len(sp["nodes"])):
        nd = sp["nodes"][i]
        uses_param = any(a[0] == "p" for a in nd["args"]) or any(a[0] == "p" for a in nd["kwargs"].values())
        reused = sum(1 for m in sp["nodes"] if m["fn"] == nd["fn"]) > 1
        if not uses_param and not reused and nd["active"] is None and all(j in setup for j in g.predecessors(i)) and rng.random() < 0.2:
            setup.add(i)
            sp["fns"][nd["fn"]]["setup"] = True
    # tags: unique and shared
    # constants that are OBJECTS (identity matters, cannot be copied): compose takes constants from the original
    for nd in sp["nodes"]:
        if rng.random() < 0.12:
            nd["args"].append(["g", rng.choice(["OPQ_A", "OPQ_B"])])
    idp = S.node_ids(sp)
    for i, nd in enumerate(sp["nodes"]):
        r = rng.random()
        if r < 0.2:
            nd["tag"] = "u%d" % i
        elif r < 0.3:
            nd["tag"] = "shared"
        elif r < 0.4 and len(idp) > 1:
            nd["tag"] = rng.choice([x for k, x in enumerate(idp) if k != i])  # spelled like ANOTHER node's id: a tag wins
    sp["is_async"] = rng.random() < 0.25
    return sp, setup


def param_node(sp, p):
    return "%s>!>%s" % (sp["name"], p)


def fingerprint(d):
    out = []
    for k, xn in d.exec_nodes.items():
        out.append((k, type(xn).__name__, tuple((u.id, tuple(u.key)) for u in xn.args),
                    tuple(sorted((kk, u.id, tuple(u.key)) for kk, u in xn.kwargs.items())),
                    None if xn.active is None else (xn.active.id, tuple(xn.active.key)), xn.priority, xn.is_sequential,
                    str(xn.tag), xn.setup, xn.debug))
    return (tuple(out), tuple(sorted(d.results.keys())), tuple(u.id for u in d.input_uxns), d.max_concurrency,
            tuple(sorted(d.graph_ids.edges)))


def comp_case(col, rng, cidx, jobref=None):
    pid = (jobref or {}).get("pid", "C19")
    if (jobref or {}).get("only"):
        from .jobs import Filtered

        col = Filtered(col, jobref["only"])
    sp, setup = gen_comp_spec(rng)
    plain = {name: probes.mkprobe(name, shape=tuple(fs["shape"]) if fs.get("shape") else None) for name, fs in sp["fns"].items()}
    ids = S.node_ids(sp)
    n = len(ids)
    g = S.site_graph(sp)
    try:
        d, _e, _p = S.build_tawazi(sp, plain=plain)
    except BaseException as e:  # noqa: BLE001
        col.inconclusive.append("generated compose program failed to build: %r" % (e,))
        return
    rp = {"kind": "rerun_job", "job": dict(jobref or {}, n_cases=cidx + 1), "source": S.render(sp)}
    params = sp["params"]
    required = [p for p in params if p not in sp["defaults"]]
    orig_args = [Sym("orig", cidx, p) for p in params]
    pre_setup = bool(setup) and rng.random() < 0.5
    setup_vals = {}
    if pre_setup:
        B.reset_log()
        r = probes.run_op("setup", lambda: op_setup(d, {}))
        _ent, vals = observed(B.snapshot())
        if r[0] != "ok":
            col.violation(pid, "setup_of_original_raised", dict(exc=repr(r[1])[:200], source=S.render(sp)), rp)
            return
        setup_vals = {i: vals[ids[i]] for i in setup if ids[i] in vals}

    def run_original(tag):
        ref = S.run_reference(sp, orig_args, plain, env_values=dict(setup_vals))
        B.reset_log()
        probes.reset_counts()
        r = probes.run_op(tag, lambda: op_call(d, orig_args))
        ent, vals = observed(B.snapshot())
        for i in setup:
            if i not in setup_vals and ids[i] in vals:
                setup_vals[i] = vals[ids[i]]
        return ref, r, ent

    before = None
    if rng.random() < 0.6:
        before = run_original("original_before")
    fp0 = fingerprint(d)
    for _k in range(4):
        ins = rng.sample(range(n), rng.randint(0, min(2, n)))
        outs = rng.sample(range(n), rng.randint(1, min(2, n)))
        chains = [(a_, b_) for (a_, b_) in g.edges if a_ in setup and b_ in setup]
        if chains and rng.random() < 0.35:
            # aim at the unjudged corner on purpose: a setup node as input, a setup node that consumes it among the outputs' needs
            a_, b_ = rng.choice(chains)
            ins, outs = [a_], [rng.choice(sorted(nx.descendants(g, b_) | {b_}))]
        same_fn = [(j_, i_) for i_ in range(n) for j_ in range(i_ + 1, n) if sp["nodes"][i_]["fn"] == sp["nodes"][j_]["fn"]
                   and not nx.has_path(g, i_, j_)]
        if same_fn and rng.random() < 0.3:
            # two usages of ONE function as inputs, the later usage (f<<1>>) named first
            ins = list(rng.choice(same_fn))
            rest = [q for q in range(n) if q not in ins]
            if rest:
                outs = [rng.choice(rest)]
        if set(ins) & set(outs):
            col.counters["skipped_inputs_overlap_outputs"] += 1
            continue
        use_ellipsis = rng.random() < 0.15 and not ins
        par_in = list(params) if use_ellipsis else [p for p in params if rng.random() < 0.6]
        # alias forms
        ambiguous = False
        rebuilt = []

        def alias(i):
            nonlocal ambiguous
            t = sp["nodes"][i].get("tag")
            r = rng.random()
            if t is not None and r < 0.4:
                if sum(1 for m in sp["nodes"] if m.get("tag") == t) > 1:
                    ambiguous = True
                return t
            if r < 0.7 and not any(m.get("tag") == ids[i] for m in sp["nodes"]):
                return ids[i]
            if r > 0.85 and "<<" not in ids[i]:
                # the decorated function object of ANOTHER build of the same source (a re-imported module): it names the first usage
                if not rebuilt:
                    rebuilt.append(S.build_tawazi(sp, plain=plain)[1])
                    col.counters["c19_aliases_given_as_decorated_functions_of_a_second_build"] += 1
                return rebuilt[0]["c%d" % i]
            return d.get_node_by_id(ids[i])

        in_alias = ... if use_ellipsis else [alias(i) for i in ins] + [param_node(sp, p) for p in par_in]
        single_out = len(outs) == 1 and rng.random() < 0.5
        out_alias = alias(outs[0]) if single_out else [alias(o) for o in outs]
        # expected errors ---------------------------------------------------------------------------------
        # parameters are nodes of the dependency relation
        def anc_params(i):
            ps = set()
            for a in nx.ancestors(g, i) | {i}:
                nd = sp["nodes"][a]
                for x in list(nd["args"]) + list(nd["kwargs"].values()) + ([nd["active"]] if nd["active"] else []):
                    if x[0] == "p":
                        ps.add(x[1])
            return ps

        exp_err = ambiguous
        exp_err = exp_err or any(nx.has_path(g, a, b) for a in ins for b in ins if a != b)
        exp_err = exp_err or any(p in anc_params(i) for i in ins for p in par_in)
        need_nodes, need_par = set(), set()

        def walk(i):
            if i in ins or i in need_nodes:
                return
            need_nodes.add(i)
            nd = sp["nodes"][i]
            for x in list(nd["args"]) + list(nd["kwargs"].values()) + ([nd["active"]] if nd["active"] else []):
                if x[0] == "p":
                    need_par.add(x[1])
            for j, _kk in S.deps_of(nd):
                walk(j)

        for o in outs:
            walk(o)
        if any(i in setup and (nx.ancestors(g, i) & set(ins)) for i in need_nodes):
            # a setup node downstream of a composed input would depend on a DAG argument (forbidden by C11's build rule):
            # the statement does not say what compose should do; not generated (DESIGN 6.11)
            col.counters["skipped_setup_node_downstream_of_input"] += 1
            # the outcome is not judged (DESIGN 6.11), but whatever compose does - refuse or build - it must leave the
            # original untouched: the attempt is made and the "original unchanged" checks below see its effect
            try:
                with warnings.catch_warnings():
                    warnings.simplefilter("ignore")
                    cx = d.compose("cmp%d_%d_x" % (cidx, _k), in_alias, out_alias)
            except BaseException as e:  # noqa: BLE001
                if isinstance(e, (KeyboardInterrupt, SystemExit)):
                    raise
                col.counters["unjudged_compose_refused:%s" % type(e).__name__] += 1
                continue
            # compose accepted it.  Whether it should is not judged - but the DAG it returned is a DAG: the outcome of its second
            # call may depend on that call's own arguments only (a setup node fed by a call argument would freeze the first one)
            from .sym import mentions

            nin = len(ins) + len(par_in) if not use_ellipsis else len(params)
            v1 = [Sym("in1", cidx, _k, q) for q in range(nin)]
            v2 = [Sym("in2", cidx, _k, q) for q in range(nin)]
            r1 = probes.run_op("composed_call_1", lambda: op_call(cx, v1))
            r2 = probes.run_op("composed_call_2", lambda: op_call(cx, v2))
            col.counters["c19_accepted_composes_with_setup_downstream_of_input"] += 1
            col.evaluations += 1
            if r1[0] == "ok" and r2[0] == "ok" and mentions(r2[1], lambda t: isinstance(t, tuple) and len(t) > 0 and t[0] == "in1"):
                col.violation(pid, "composed_dag_call_depends_on_an_earlier_call", dict(
                    second_call_returned=short(r2[1], 300), inputs=S.jsonable(in_alias if in_alias is not ... else "..."),
                    outputs=S.jsonable(out_alias), source=S.render(sp)), dict(rp, inputs=S.jsonable(in_alias if in_alias is not ... else "..."), outputs=S.jsonable(out_alias)))
            continue
        missing = [p for p in need_par if p not in par_in and p in required]
        exp_err = exp_err or bool(missing)
        col.evaluations += 1
        col.counters["c19_compose_calls"] += 1
        rp2 = dict(rp, inputs=S.jsonable(in_alias if in_alias is not ... else "..."), outputs=S.jsonable(out_alias))
        try:
            with warnings.catch_warnings():
                warnings.simplefilter("ignore")
                ckw = {}
                if rng.random() < 0.3:
                    ckw["is_async"] = rng.random() < 0.5  # the flavour of the composed DAG may differ from the original's
                if rng.random() < 0.3:
                    ckw["max_concurrency"] = rng.randint(1, 3)
                c = d.compose("cmp%d_%d" % (cidx, _k), in_alias, out_alias, **ckw)
        except ValueError as e:
            col.counters["c19_valueerrors"] += 1
            if not exp_err:
                col.violation(pid, "compose_raised_ValueError_for_valid_request", dict(
                    inputs=S.jsonable(in_alias if in_alias is not ... else "..."), outputs=S.jsonable(out_alias), exc=str(e)[:200], source=S.render(sp)), rp2)
            continue
        except BaseException as e:  # noqa: BLE001
            col.violation(pid, "compose_raised_internal_error", dict(
                inputs=S.jsonable(in_alias if in_alias is not ... else "..."), outputs=S.jsonable(out_alias), exc=repr(e)[:300], source=S.render(sp)), rp2)
            continue
        if exp_err:
            why = "ambiguous alias" if ambiguous else ("missing required input %s" % missing if missing else "input depends on input")
            col.violation(pid, "compose_accepted_invalid_request", dict(
                why=why, inputs=S.jsonable(in_alias if in_alias is not ... else "..."), outputs=S.jsonable(out_alias), source=S.render(sp)), rp2)
            continue
        # run the composed DAG ------------------------------------------------------------------------------
        in_vals = {i: Sym("in", cidx, _k, i) for i in ins}
        par_vals = {p: Sym("pin", cidx, _k, p) for p in par_in}
        vals = [in_vals[i] for i in ins] + [par_vals[p] for p in par_in]
        if use_ellipsis:
            vals = [par_vals[p] for p in params]
        ref_args = [par_vals.get(p, sp["defaults"].get(p)) for p in params]
        env = dict(in_vals)
        for i in setup_vals:
            if i in need_nodes:
                env[i] = setup_vals[i]
        ref = S.run_reference(sp, ref_args, plain, enabled=need_nodes, env_values=env)
        B.reset_log()
        probes.reset_counts()
        r = probes.run_op("composed_call", lambda: op_call(c, vals))
        _log = B.snapshot()
        ent, _vals = observed(_log)
        col.generic(_log, rp2)
        col.evaluations += 1
        col.counters["c19_composed_runs"] += 1
        if any(nd["active"] is not None and nd["active"][0] in ("n", "u") and nd["active"][1] in ins for i2, nd in enumerate(sp["nodes"]) if i2 in need_nodes):
            col.counters["c19_input_used_as_activation_flag"] += 1
        if any(a[0] in ("n", "u") and a[1] in ins and (a[2] if a[0] == "n" else True) for i2, nd in enumerate(sp["nodes"]) if i2 in need_nodes for a in nd["args"]):
            col.counters["c19_input_used_indexed"] += 1
        if ref[0] != "ok":
            col.counters["ref_raised_skipped"] += 1
            continue
        if r[0] != "ok":
            col.violation(pid, "composed_dag_raised", dict(
                exc=repr(r[1])[:300], inputs=S.jsonable(in_alias if in_alias is not ... else "..."), outputs=S.jsonable(out_alias), source=S.render(sp)), rp2)
            continue
        exp_vals = [S.deabs(ref[1].value.get(o)) for o in outs]
        exp = exp_vals[0] if single_out else tuple(exp_vals)
        if not same(exp, r[1]):
            col.violation(pid, "composed_value_differs_from_substituted_pipeline", dict(
                expected=short(exp, 300), got=short(r[1], 300), inputs=S.jsonable(in_alias if in_alias is not ... else "..."), outputs=S.jsonable(out_alias), source=S.render(sp)), rp2)
        exp_run = {ids[i] for i in need_nodes if ref[1].active.get(i)}
        if set(ent) != exp_run or any(v != 1 for v in ent.values()):
            col.violation(pid, "composed_dag_ran_more_or_less_than_the_outputs_need", dict(
                executed=sorted(ent.items()), expected=sorted(exp_run), inputs=S.jsonable(in_alias if in_alias is not ... else "..."), outputs=S.jsonable(out_alias), source=S.render(sp)), rp2)
        if vals and rng.random() < 0.35 and not c.__class__.__name__.startswith("Async"):
            # C20 over composed DAGs: calling the composed DAG inside a describing function is the same as calling it directly
            # (its input stubs and nodes get prefixed ids that neither collide with each other nor with the outer DAG's)
            from tawazi import dag as _dag

            names = ["a%d" % q for q in range(len(vals))]
            env_o = {"c_": c}
            if rng.random() < 0.4 and not ckw.get("is_async"):
                # ... also when the DAG is composed INSIDE the describing function of the outer DAG
                def _compose_here():
                    with warnings.catch_warnings():
                        warnings.simplefilter("ignore")
                        return d.compose("cmpin%d_%d" % (cidx, _k), in_alias, out_alias, **ckw)

                env_o = {"c_": lambda *a_: _compose_here()(*a_)}
                col.counters["c20_dags_composed_inside_a_describing_function"] += 1
            exec("def nest_o%d_%d(%s):\n    return c_(%s)\n" % (cidx, _k, ", ".join(names), ", ".join(names)), env_o)  # noqa: S102
            col.counters["c20_composed_dags_nested_in_an_outer_dag"] += 1
            try:
                outer_ = _dag(env_o["nest_o%d_%d" % (cidx, _k)])
                ro = probes.run_op("nested_composed_call", lambda: outer_(*vals))
            except BaseException as e:  # noqa: BLE001
                if isinstance(e, (KeyboardInterrupt, SystemExit)):
                    raise
                ro = ("exc", e)
            composed_inside = "c_" in env_o and env_o["c_"] is not c
            if composed_inside and (ro[0] != "ok" or not same(ro[1], r[1])):
                # compose() is compose() wherever it is called from: the same request just succeeded outside a description
                col.violation(pid, "compose_inside_a_describing_function_differs_from_compose_outside", dict(
                    outcome=short(ro, 300), direct=short(r[1], 300), inputs=S.jsonable(in_alias if in_alias is not ... else "..."),
                    outputs=S.jsonable(out_alias), source=S.render(sp)), rp2)
            if ro[0] != "ok":
                col.violation("C20", "composed_dag_cannot_be_nested_like_it_is_called", dict(
                    exc=repr(ro[1])[:300], inputs=S.jsonable(in_alias if in_alias is not ... else "..."), outputs=S.jsonable(out_alias),
                    source=S.render(sp)), rp2)
            elif not same(ro[1], r[1]):
                col.violation("C20", "nested_composed_dag_returns_another_value_than_the_direct_call", dict(
                    direct=short(r[1], 300), nested=short(ro[1], 300), inputs=S.jsonable(in_alias if in_alias is not ... else "..."),
                    outputs=S.jsonable(out_alias), source=S.render(sp)), rp2)
        col.hashes.add(S.spec_hash({"s": S.render(sp), "i": sorted(ins), "p": par_in, "o": outs}))
        if col.evaluations % 150 < 3:
            col.sample(dict(source=S.render(sp), inputs=S.jsonable(in_alias if in_alias is not ... else "..."), outputs=S.jsonable(out_alias),
                            executed=sorted(ent), value=short(r[1], 200)))
    # the original is unchanged ---------------------------------------------------------------------------
    col.counters["c19_original_unchanged_checks"] += 1
    if fingerprint(d) != fp0:
        col.violation(pid, "original_dag_structure_changed_by_compose", dict(source=S.render(sp)), rp)
    after = run_original("original_after")
    ref, r, ent = after
    if ref[0] == "ok":
        if r[0] != "ok":
            col.violation(pid, "original_dag_raises_after_compose", dict(exc=repr(r[1])[:300], source=S.render(sp)), rp)
        else:
            if not same(ref[1].result, r[1]):
                col.violation(pid, "original_dag_value_changed_after_compose", dict(expected=short(ref[1].result, 300), got=short(r[1], 300), source=S.render(sp)), rp)
            exp_run = {ids[i] for i in range(n) if ref[1].active.get(i)}
            if set(ent) != exp_run:
                col.violation(pid, "original_dag_executed_set_changed_after_compose", dict(executed=sorted(ent), expected=sorted(exp_run), source=S.render(sp)), rp)


@job("comp19")
def job_comp19(j):
    rng = random.Random(j["seed"])
    col = Collector()
    for c in range(j["n_cases"]):
        comp_case(col, rng, c, jobref=j)
    return col.result()
