"""Worker process entry: `python -m twzmon.worker job.json out.json`.

Installs the boundary instrumentation BEFORE tawazi is imported, runs one job, writes a result dict:
  evaluations, hashes (distinct non-trivial case hashes), counters, reach, violations, inconclusive, samples
"""
from __future__ import annotations

import gc
import json
import sys
import time
import traceback


def main():
    jpath, out = sys.argv[1], sys.argv[2]
    with open(jpath) as f:
        job = json.load(f)
    from twzmon import bootstrap as B

    B.install()
    import tawazi  # noqa: F401

    B.install_tawazi_hooks()
    B.Settings.seed = int(job.get("seed", 0))
    from twzmon import jobs, probes
    import threading

    jobs.CURRENT["out"] = out
    limit = float(job.get("op_watchdog_s", 90))

    peak = [0]

    def hangwatch():
        while True:
            time.sleep(1.0)
            n = threading.active_count()
            if n > peak[0]:
                peak[0] = n
            if n > 400:
                gc.collect()  # pools abandoned by failed executions are only freed (and their idle workers woken) by the collector
            now = time.monotonic()
            for th, (label, t_start) in list(probes.CURRENT_OPS.items()):
                if now - t_start > limit:
                    jobs.on_hang(label, th, now - t_start)

    threading.Thread(target=hangwatch, daemon=True, name="twz-hangwatch").start()
    t0 = time.time()
    try:
        res = jobs.dispatch(job)
    except BaseException as e:  # noqa: BLE001
        res = {"inconclusive": ["worker crashed: %s\n%s" % (repr(e), traceback.format_exc()[-3000:])]}
    res.setdefault("reach", {})
    for k, v in B.REACH.items():
        res["reach"][k] = res["reach"].get(k, 0) + v
    from twzmon import spec as _spec
    from tawazi.config import cfg as _cfg

    for k, v in _spec.DECL_FORMS.items():
        res["reach"]["decl:" + k] = res["reach"].get("decl:" + k, 0) + v
    res["reach"]["process_default:resource=%s,is_sequential=%s" % (getattr(_cfg.TAWAZI_DEFAULT_RESOURCE, "value", _cfg.TAWAZI_DEFAULT_RESOURCE),
                                                                   _cfg.TAWAZI_IS_SEQUENTIAL)] = 1
    if jobs.PROFILE_SWITCHES[0]:
        res["reach"]["config_profiles_switched_A_B_A_with_the_same_dict_objects"] = jobs.PROFILE_SWITCHES[0]
    for k, v in _spec.SPELL_COUNTS.items():
        res["reach"][k] = res["reach"].get(k, 0) + v
    for k, v in probes.FAULT_CLASS_COUNTS.items():
        res["reach"]["node_failure_class:" + k] = res["reach"].get("node_failure_class:" + k, 0) + v
    res["worker_wall_s"] = time.time() - t0
    res["peak_threads"] = max(peak[0], threading.active_count())
    with open(out, "w") as f:
        json.dump(res, f, default=repr)
    B.close_all()
    gc.collect()
    sys.stdout.flush()
    # worker threads of pools abandoned by failed executions must not keep the process alive
    import os

    os._exit(0)


if __name__ == "__main__":
    main()
