"""Scheduling workloads and the event-log monitors for C02-C06, C08, C09, C14 (DESIGN 2.8, 4)."""
from __future__ import annotations

import asyncio
import zlib
from collections import Counter

import networkx as nx

from . import bootstrap as B
from . import probes, spec as S
from .sym import same, short

RES = ["thread", "async-thread", "main-thread"]


# ------------------------------------------------------------------------------------------------
# generator
# ------------------------------------------------------------------------------------------------
def gen_shape(rng, nmin=2, nmax=9, mix=None, pri="small", seq_rate=0.2, flags=True, reuse=True, mc_max=4,
              kinds=True, max_deps=3, setup_rate=0.0, tag_rate=0.0, const_objects=0.06, nest_rate=0.0, debug_rate=0.0, twin_rate=0.0):
    n = rng.randint(nmin, nmax)
    mix = mix or rng.choice(["thread", "async", "mixed", "mixed_main", "thread_main", "async_main"])
    fns = {}
    nodes = []
    flagged = set()
    for i in range(n):
        if reuse and i > 0 and rng.random() < 0.15:
            fn = nodes[rng.randrange(i)]["fn"]
        else:
            fn = "f%d" % i
            if mix == "thread":
                res = "thread"
            elif mix == "async":
                res = "async-thread"
            elif mix == "mixed":
                res = rng.choice(RES[:2])
            elif mix == "thread_main":
                res = rng.choice(["thread", "thread", "main-thread"])
            elif mix == "async_main":
                res = rng.choice(["async-thread", "async-thread", "main-thread"])
            else:
                res = rng.choice(RES)
            if pri == "small":
                p = rng.choice([-2, 0, 0, 1, 1, 2, 3, 5])
            elif pri == "pow10":
                p = 10 ** i
            else:
                p = rng.randint(-5, 20)
            shape = None
            r_shape = rng.random()
            if kinds and r_shape < 0.2:
                shape = ["tuple", 2]
            elif kinds and r_shape < 0.28:
                shape = ["none"]
            elif kinds and r_shape < 0.36:
                shape = ["handle"]  # an object whose identity matters (and that remembers being copied)
            elif kinds and r_shape < 0.42:
                shape = ["same"]  # hands its first identity-carrying argument on: two results are one object
            fns[fn] = dict(priority=p, is_sequential=rng.random() < seq_rate, resource=res, shape=shape)
        nd = {"fn": fn, "args": [], "kwargs": {}, "active": None}
        ds = sorted(rng.sample(range(i), rng.randint(0, min(i, max_deps))))
        for j in ds:
            keys = []
            if (spec_shape(fns, nodes[j]) or [None])[0] == "tuple" and j not in flagged and rng.random() < 0.6:
                keys = [rng.randrange(2)]
            elif spec_shape(fns, nodes[j]) is None and j not in flagged and kinds and rng.random() < 0.12:
                # indexing an opaque result (half of the symbolic terms are falsy, like an empty Counter that is indexed)
                keys = [rng.choice([0, "k", 3])] + ([rng.choice([1, "z"])] if rng.random() < 0.3 else [])
                while len(keys) >= 2 and len(keys) < 6 and rng.random() < 0.4:
                    keys.append(rng.choice([0, "d", 2]))  # (key paths of 3 .. 6 steps: every step counts)
            a = ["n", j, keys]
            r = rng.random()
            if flags and kinds and r < 0.12 and nd["active"] is None:
                # (half of the flags are an indexed part of the producer's result - the key path belongs to the flag)
                nd["active"] = a if rng.random() < 0.5 else ["n", j, []]
            elif kinds and r < 0.35:
                nd["kwargs"]["k%d" % j] = a
            else:
                nd["args"].append(a)
        dup = [a_ for a_ in nd["args"] if a_[0] == "n"]
        if kinds and dup and rng.random() < 0.08:
            nd["args"].append(list(rng.choice(dup)))  # the same result passed twice to one call (mul(v, v))
        if rng.random() < 0.3:
            nd["args"].append(["p", "x"])
        if rng.random() < 0.15:
            nd["args"].append(["c", rng.choice([0, 1, "s", None])])
        if kinds and rng.random() < const_objects:
            nd["args"].append(["g", rng.choice(["OPQ_A", "OPQ_B"])])  # a constant OBJECT (identity-sensitive, cannot be copied)
        if nd["active"] is not None:
            flagged.add(i)
        nodes.append(nd)
    if setup_rate:
        # setup nodes: an ancestor-closed set of call sites without DAG argument / flag / reuse
        st = set()
        for i, nd in enumerate(nodes):
            uses_param = any(a[0] == "p" for a in nd["args"])
            reused = sum(1 for m in nodes if m["fn"] == nd["fn"]) > 1
            dps = [a[1] for a in list(nd["args"]) + list(nd["kwargs"].values()) if a[0] == "n"]
            if not uses_param and not reused and nd["active"] is None and all(q in st for q in dps) and rng.random() < setup_rate:
                st.add(i)
                fns[nd["fn"]]["setup"] = True
    if kinds and rng.random() < tag_rate:
        # tags (decorator level): shared by several functions, or spelled exactly like the id of ANOTHER node - a string
        # alias is a tag first and a node id second
        names = sorted(fns)
        for fn in names:
            r = rng.random()
            if r < 0.3:
                # (some tags are substrings of other tags: "T" in "TT" and "xT" - an alias names the nodes carrying exactly it)
                fns[fn]["tag"] = rng.choice(["T", "T", "TT", "xT"])
            elif r < 0.5 and len(names) > 1:
                fns[fn]["tag"] = rng.choice([x for x in names if x != fn])
    if kinds and len(fns) >= 2 and rng.random() < twin_rate:
        # two different decorated functions with ONE qualified name (and their own options): ids f, f<<1>>, ... in build order
        a, b = rng.sample(sorted(fns), 2)
        if not any(fns[q].get(k) for q in (a, b) for k in ("setup", "unpack_to")) and not any(fs.get("tag") in (a, b) for fs in fns.values()):
            fns[b]["alias_of"] = a
    spec = {
        "name": "prog",
        "params": ["x"],
        "defaults": {},
        "fns": fns,
        "nodes": nodes,
        "ret": ["tuple", [["n", i, []] for i in range(n)]],
        "mc": rng.randint(1, mc_max),
        "is_async": False,
        "mix": mix,
    }
    if rng.random() < debug_rate:
        # some sinks are debug nodes and the whole case runs with RUN_DEBUG_NODES on (whole-DAG calls only): every node runs,
        # so every schedule clause applies to them as to any other node
        g_ = site_graph_of(nodes)
        dbg = set()
        for i in reversed(range(n)):
            # descendant-closed: sinks, and nodes all of whose consumers are debug nodes (debug chains)
            ok = sum(1 for m in nodes if m["fn"] == nodes[i]["fn"]) == 1 and not fns[nodes[i]["fn"]].get("setup")
            if ok and all(c in dbg for c in g_.successors(i)) and rng.random() < (0.6 if g_.out_degree(i) == 0 else 0.4):
                dbg.add(i)
                fns[nodes[i]["fn"]]["debug"] = True
                spec["run_debug"] = True
    from tawazi.config import cfg as _tcfg

    # (with TAWAZI_IS_SEQUENTIAL=true the argument stubs tawazi creates for an inner DAG are sequential nodes themselves: the
    # schedule clauses would need to know them - nested blocks are generated in the other worker processes only)
    if n >= 3 and rng.random() < nest_rate and not _tcfg.TAWAZI_IS_SEQUENTIAL:
        # a block of consecutive call sites is written as an inner DAG called by the describing function: same nodes, same
        # dependencies, prefixed ids - every schedule / value / selection clause applies unchanged (C20: nesting == inlining)
        a0 = rng.randrange(n)
        b0 = min(n - 1, a0 + rng.randint(0, 2))
        ext_ok = all(not fns[nodes[q]["fn"]].get("debug") for i in range(a0, b0 + 1) for (q, _k) in S.deps_of(nodes[i]) if q < a0)
        if ext_ok and S.nestable(spec, a0, b0):
            spec["nest"] = {"name": "nin", "first": a0, "last": b0, "mc": rng.randint(1, 2)}
            for fs in fns.values():
                # (the argument stubs of the inner DAG have priority 0: with non-negative priorities a stub never ranks below the
                # node it feeds, so the priority clauses need no special case)
                fs["priority"] = abs(fs.get("priority", 0))
    return spec


def site_graph_of(nodes):
    g = nx.DiGraph()
    g.add_nodes_from(range(len(nodes)))
    for i, nd in enumerate(nodes):
        for j, _k in S.deps_of(nd):
            g.add_edge(j, i)
    return g


def spec_shape(fns, nd):
    return fns[nd["fn"]].get("shape")


# ------------------------------------------------------------------------------------------------
# running one case
# ------------------------------------------------------------------------------------------------
def call_dag(d, op, args, executor=None):
    """Perform one client operation (sync or async flavour) and return the raw value."""
    from tawazi import AsyncDAG

    is_async = isinstance(d, AsyncDAG)
    kind = op.get("kind", "call")
    if kind == "call":
        if is_async:
            return asyncio.run(_acall(d, args))
        return d(*args)
    if kind == "setup":
        if is_async:
            return asyncio.run(d.setup())
        return d.setup()
    if kind == "executor":
        kw = {}
        for k in ("target_nodes", "exclude_nodes", "root_nodes"):
            if op.get(k) is not None:
                kw[k] = op[k]
        ex = executor if executor is not None else d.executor(**S.spell_selections(kw))
        if is_async:
            return asyncio.run(_acall(ex, args))
        return ex(*args)
    raise AssertionError(kind)


async def _acall(f, args):
    return await f(*args)


def setup_sites(spec):
    return {i for i, nd in enumerate(spec["nodes"]) if spec["fns"][nd["fn"]].get("setup")}


def run_case(spec, op=None, args=None, faults=(), controlled=True, chooser=None, d=None, plain=None, pre_values=None, fault_base=False, executor=None):
    """Build (unless given), run the reference, run tawazi under the monitors, return a case record."""
    op = op or {"kind": "call"}
    from .sym import Sym

    if args is None:
        args = [Sym("arg", 0)]
    if d is None:
        d, _env, plain = S.build_tawazi(spec)
    ids = S.node_ids(spec)
    sel = None
    if op.get("kind") == "executor":
        idx = {s: i for i, s in enumerate(ids)}
        conv = lambda l: None if l is None else [idx[a] for a in l]  # noqa: E731
        sel = S.closure(spec, conv(op.get("root_nodes")), conv(op.get("exclude_nodes")), conv(op.get("target_nodes")))
    if op.get("kind") == "setup":
        sel = setup_sites(spec)
    pre_values = dict(pre_values or {})
    # the reference is evaluated fault-free: it supplies activity / values of everything up to the failure
    ref = S.run_reference(spec, args, plain, enabled=sel, env_values=pre_values)
    B.reset_log()
    probes.reset_counts()
    probes.State.faults = set(faults)
    probes.State.fault_base = bool(fault_base)  # the failing nodes raise a BaseException (a cancellation-like error)
    B.Settings.controlled = controlled
    B.Settings.chooser = chooser
    B.Settings.step_limit = 10 * len(d.exec_nodes) + 20
    from tawazi.config import cfg as _tcfg

    old_dbg = _tcfg.RUN_DEBUG_NODES
    if spec.get("run_debug"):
        _tcfg.RUN_DEBUG_NODES = True  # the shape has debug sinks: the whole case runs with them switched on
    try:
        res = probes.run_op(op.get("kind", "call"), lambda: call_dag(d, op, args, executor))
    finally:
        _tcfg.RUN_DEBUG_NODES = old_dbg
        B.Settings.controlled = False
        B.Settings.chooser = None
        B.Settings.step_limit = 0
        probes.State.faults = set()
        probes.State.fault_base = False
    log = B.snapshot()
    return {"spec": spec, "op": op, "args": args, "faults": list(faults), "ref": ref, "res": res, "log": log,
            "ids": ids, "sel": sel, "dag": d, "plain": plain, "precomputed": set(pre_values), "fault_base": bool(fault_base)}


# ------------------------------------------------------------------------------------------------
# monitors
# ------------------------------------------------------------------------------------------------
class View:
    """Derived per-execution facts (DESIGN 2.8) from the event log only."""

    def __init__(self, case):
        spec, log, ids = case["spec"], case["log"], case["ids"]
        self.case = case
        self.spec = spec
        self.ids = ids
        self.idx = {s: i for i, s in enumerate(ids)}
        toks = [e["token"] for e in log if e["kind"] == "POOL_NEW"]
        self.tokens = toks
        self.tok = toks[-1] if toks else None
        # one client operation = one execution, however many thread pools the scheduler chose to create for it
        tokset = set(toks)
        self.evs = [e for e in log if e.get("token") in tokset]
        self.all = log
        self.mc = spec.get("mc", 1)
        ex_fut2node, task2fut = {}, {}
        for e in self.evs:
            if e["kind"] == "XENTER" and e.get("fut") is not None:
                ex_fut2node[e["fut"]] = e["node"]
            if e["kind"] == "SUBMIT" and e.get("task") is not None:
                task2fut[e["task"]] = e["fut"]
        self.fut2node, self.task2fut = ex_fut2node, task2fut
        self.decision, self.xenter, self.xexit, self.fenter, self.fexit = {}, {}, {}, {}, {}
        self.delivered, self.inline, self.fcount, self.xfail = {}, set(), Counter(), {}
        self.fthread = {}
        self.fargs = {}
        self.pruned = {}
        self.workers = set()
        self.undecided_submits = 0
        for e in self.evs:
            k = e["kind"]
            if k == "WORKER":
                self.workers.add(e["thread"])
            elif k == "TASK_NEW":
                nd = ex_fut2node.get(task2fut.get(e["task"]))
                if nd is not None:
                    self.decision.setdefault(nd, e["seq"])
            elif k == "SUBMIT":
                nd = ex_fut2node.get(e["fut"])
                if nd is not None:
                    self.decision.setdefault(nd, e["seq"])
            elif k == "XENTER":
                nd = e["node"]
                self.decision.setdefault(nd, e["seq"])
                self.xenter.setdefault(nd, e["seq"])
                if e.get("inline"):
                    self.inline.add(nd)
            elif k == "XEXIT":
                nd = e["node"]
                self.xexit.setdefault(nd, e["seq"])
                if not e["ok"]:
                    self.xfail[nd] = e["seq"]
                if nd in self.inline:
                    self.delivered.setdefault(nd, e["seq"])
            elif k == "FENTER":
                nd = e["node"]
                self.fcount[nd] += 1
                self.fenter.setdefault(nd, e["seq"])
                self.fthread.setdefault(nd, e["thread"])
                self.fargs.setdefault(nd, (e["args"], e["kwargs"]))
            elif k == "FEXIT":
                self.fexit.setdefault(e["node"], e["seq"])
            elif k == "WAIT_RET":
                if e["wkind"] == "thread":
                    for f in e["done"]:
                        nd = ex_fut2node.get(f)
                        if nd is not None:
                            self.delivered.setdefault(nd, e["seq"])
                else:
                    for t in e["done_tasks"]:
                        nd = ex_fut2node.get(task2fut.get(t))
                        if nd is not None:
                            self.delivered.setdefault(nd, e["seq"])
            elif k == "RES_SET" and e.get("is_none"):
                self.pruned.setdefault(e["key"], e["seq"])
        self.sched_thread = None
        for e in self.evs:
            if e["kind"] == "POOL_NEW":
                self.sched_thread = e["thread"]
        self.op_begin = next((e for e in log if e["kind"] == "OP_BEGIN"), None)
        self.op_end = next((e for e in log if e["kind"] == "OP_END"), None)
        self.bypassed = any(e["kind"] == "BYPASS" for e in log)
        # static info
        self.g = S.site_graph(spec)
        self.cp = S.cp_spec(spec)
        self.attrs = [spec["fns"][nd["fn"]] for nd in spec["nodes"]]
        ref = case["ref"]
        self.ref = ref[1] if ref[0] == "ok" else None
        self.sel = case["sel"] if case["sel"] is not None else set(range(len(ids)))
        self.pre = set(case.get("precomputed", ()))  # sites whose value was already on the instance

    def pooled(self, i):
        return self.attrs[i].get("resource", "thread") != "main-thread"

    def participates(self, i):
        """selected, active in the reference run, not precomputed."""
        if i not in self.sel or i in self.pre:
            return False
        if self.ref is None:
            return None
        return bool(self.ref.active.get(i, False))


def check_all(case, props=None):
    """Run every scheduling monitor on one case. Returns (violations, stats)."""
    v = View(case)
    viol = []
    st = Counter()
    ids = v.ids
    n = len(ids)
    spec = v.spec
    res = case["res"]
    normal = res[0] == "ok"
    faults = set(case["faults"])

    def add(prop, mech, **w):
        viol.append({"prop": prop, "mech": mech, "witness": w})

    if v.tok is None:
        st["no_execution_token"] += 1
        return viol, st, v
    st["executions"] += 1

    # ---------------------------------------------------------------- C02 ordering + values
    for i in range(n):
        x = ids[i]
        if x not in v.xenter:
            continue
        for j, kind in S.deps_of(spec["nodes"][i]):
            d = ids[j]
            part = v.participates(j)
            if part is None:
                continue
            st["c02_dep_edges"] += 1
            if part:
                if not (d in v.xexit and v.xexit[d] < v.xenter[x]):
                    add("C02", "started_before_dependency_finished", node=x, dep=d, kind=kind,
                        dep_exit=v.xexit.get(d), node_enter=v.xenter[x])
                elif d in v.xfail:
                    # the dependency RAISED: it never returned, nothing may be entered on its behalf
                    add("C02", "started_although_dependency_raised", node=x, dep=d, kind=kind)
            elif d in v.xenter and v.xenter[d] > v.xenter[x] and j in v.sel and j not in v.pre:
                pass
        if v.ref is not None and x in v.fargs and i in v.ref.args and not faults:
            st["c02_value_checks"] += 1
            ea, ek = v.ref.args[i]
            ga, gk = v.fargs[x]
            if not (same(tuple(ea), tuple(ga)) and same(dict(ek), dict(gk))):
                add("C02", "received_wrong_values", node=x, expected=short((ea, ek)), got=short((ga, gk)))

    # ---------------------------------------------------------------- C03 exactly once / not at all
    if normal and v.ref is not None:
        for i in range(n):
            x = ids[i]
            exp = 1 if v.participates(i) else 0
            st["c03_sites"] += 1
            if v.fcount.get(x, 0) != exp:
                add("C03", "entered_%d_times_expected_%d" % (v.fcount.get(x, 0), exp), node=x,
                    selected=i in v.sel, active=v.ref.active.get(i), precomputed=i in v.pre)
        for x in v.fcount:
            if x not in v.idx:
                add("C03", "foreign_node_entered", node=x)

    # ---------------------------------------------------------------- C04 concurrency bound + threads
    for x, s in v.decision.items():
        if x not in v.idx or not v.pooled(v.idx[x]):
            continue
        st["c04_pooled_decisions"] += 1
        running = [m for m in v.decision if m in v.idx and v.pooled(v.idx[m]) and v.decision[m] <= s
                   and not (m in v.xexit and v.xexit[m] < s)]
        if len(running) > v.mc:
            add("C04", "more_than_max_concurrency_in_flight", at=x, in_flight=sorted(running), max_concurrency=v.mc)
    op_thread = v.op_begin["thread"] if v.op_begin else None
    for x, th in v.fthread.items():
        if x not in v.idx:
            continue
        i = v.idx[x]
        st["c04_thread_checks"] += 1
        if v.pooled(i):
            if th == op_thread or th == v.sched_thread:
                add("C04", "pooled_node_on_invoking_thread", node=x, resource=v.attrs[i]["resource"])
            elif th not in v.workers:
                add("C04", "pooled_node_on_foreign_thread", node=x, resource=v.attrs[i]["resource"])
        else:
            if th != op_thread:
                add("C04", "main_thread_node_off_invoking_thread", node=x)
    mains = [ids[i] for i in range(n) if not v.pooled(i) and ids[i] in v.fenter]
    for a in mains:
        for b in mains:
            if a < b and _overlap(v, a, b):
                add("C04", "main_thread_nodes_overlap", a=a, b=b)

    # ---------------------------------------------------------------- C05 sequential overlaps nothing
    for i in range(n):
        x = ids[i]
        if not v.attrs[i].get("is_sequential") or x not in v.fenter:
            continue
        for y in v.fenter:
            if y == x:
                continue
            st["c05_pairs"] += 1
            if _overlap(v, x, y):
                add("C05", "sequential_node_overlapped", sequential=x, other=y,
                    seq_interval=(v.fenter[x], v.fexit.get(x)), other_interval=(v.fenter[y], v.fexit.get(y)))

    # ---------------------------------------------------------------- ready set helper
    active = {i for i in range(n) if v.participates(i)} if v.ref is not None else None

    def resolved(j, s, extra=()):
        """dependency j is known-finished to the scheduler strictly before s (extra: nodes a FIRST_COMPLETED wait would
        already have delivered - used only to judge an ALL_COMPLETED wait step by step)."""
        if j not in v.sel or j in v.pre:
            return True
        d = ids[j]
        if active is not None and j in active:
            return (d in v.delivered and v.delivered[d] < s) or d in extra
        return d in v.pruned and v.pruned[d] < s

    def ready_certain(s, with_inactive=False, extra=()):
        """with_inactive: also nodes the scheduler will prune (flag falsy) once it picks them; until then they are
        candidates for it like any other (and may make it drain for a sequential candidate)."""
        out = []
        if active is None:
            return out
        for i in sorted(v.sel - v.pre):
            x = ids[i]
            if i in active:
                if x in v.decision and v.decision[x] <= s:
                    continue
            else:
                if not with_inactive or (x in v.pruned and v.pruned[x] <= s):
                    continue
            if all(resolved(j, s, extra) for j, _k in S.deps_of(spec["nodes"][i])):
                out.append(i)
        return out

    def in_flight(s):
        return [x for x in v.decision if x in v.idx and v.pooled(v.idx[x]) and v.decision[x] < s
                and not (x in v.delivered and v.delivered[x] < s)]

    fail_seen = None  # first delivery of a failure
    for x, s in v.xfail.items():
        dl = v.delivered.get(x)
        if dl is not None and (fail_seen is None or dl < fail_seen):
            fail_seen = dl

    # ---------------------------------------------------------------- C06 highest compound priority
    if v.ref is not None and not v.bypassed:
        for x, s in sorted(v.decision.items(), key=lambda kv: kv[1]):
            if x not in v.idx:
                continue
            i = v.idx[x]
            st["c06_decisions"] += 1
            r = ready_certain(s)
            if r:
                st["c06_decisions_with_alternatives"] += 1
            for y in r:
                if v.cp[y] > v.cp[i]:
                    add("C06", "lower_priority_started", started=x, cp_started=v.cp[i], better=ids[y], cp_better=v.cp[y],
                        ready=[ids[q] for q in r])
                    break
            else:
                # under the controller a dispatched node is inside its function before the scheduler can be told about any
                # further completion (the patched waits settle first): if its ACTUAL start comes later - it sat in the pool's
                # FIFO queue - the nodes that became ready meanwhile are judged against it as well
                if any(e["kind"] == "CHOICE" for e in v.evs) and x in v.xenter and x not in v.inline and v.xenter[x] > s:
                    r2 = [y for y in ready_certain(v.xenter[x]) if y != i]
                    for y in r2:
                        # only readiness established by a wait DELIVERY between the dispatch and the actual start counts (a
                        # deactivated node pruned in between, or an inline main-thread node that ran before the loop could start
                        # the async task, make successors ready without any wait: legitimate)
                        by_delivery = any(ids[j] in v.delivered and ids[j] not in v.inline and s < v.delivered[ids[j]] < v.xenter[x]
                                          for j, _k in S.deps_of(spec["nodes"][y]))
                        if by_delivery and v.cp[y] > v.cp[i] and not (ids[y] in v.decision and v.decision[ids[y]] <= v.xenter[x]):
                            add("C06", "queued_node_started_while_higher_priority_node_ready", started=x, cp_started=v.cp[i],
                                better=ids[y], cp_better=v.cp[y], dispatched_at=s, actually_started_at=v.xenter[x])
                            break

    # ---------------------------------------------------------------- C08 no idling
    if v.ref is not None and not v.bypassed:
        evs = v.evs
        controlled_run = any(e["kind"] == "CHOICE" for e in evs)
        for pos, e in enumerate(evs):
            if e["kind"] != "WAIT_CALL":
                continue
            s = e["seq"]
            st["c08_waits"] += 1
            waited = e.get("futs") if e["wkind"] == "thread" else e.get("tasks")
            dac = e.get("done_at_call") or []
            if e["rw"] == B.FIRST_COMPLETED and dac:
                continue
            if len(dac) == len(waited):
                continue
            st["c08_blocking_waits"] += 1
            if controlled_run:
                # "independent ready nodes are actually run concurrently up to the limit": under the controller every
                # dispatched node that has a worker is inside its function when the wait is logged
                fl0 = in_flight(s)
                queued = [x for x in fl0 if not (x in v.xenter and v.xenter[x] < s)]
                pend_tasks = [ee for ee in evs if ee["kind"] == "TASK_NEW" and ee["seq"] < s and ee["task"] not in v.task2fut
                              and str(ee.get("coro", "")).endswith("to_thread_in_executor")]
                st["c08_actual_concurrency_checks"] += 1
                if (queued or pend_tasks) and len(fl0) + len(pend_tasks) <= v.mc and e["wkind"] == "async" or (queued and e["wkind"] == "thread" and len(fl0) <= v.mc):
                    pool = next((pe for pe in evs if pe["kind"] == "POOL_NEW"), {})
                    add("C08", "dispatched_node_not_running_while_scheduler_blocks", wait_seq=s, wkind=e["wkind"], queued=sorted(queued),
                        in_flight=sorted(fl0), max_concurrency=v.mc, pool_max_workers=pool.get("max_workers"))
            steps = [s]
            if e["rw"] == B.ALL_COMPLETED:
                # evaluate again after each controlled completion but the last
                k = pos + 1
                cs = []
                while k < len(evs) and evs[k]["kind"] != "WAIT_RET":
                    if evs[k]["kind"] == "CTRL_STEP":
                        cs.append(evs[k]["seq"])
                    k += 1
                steps += cs[:-1]
            for sidx, s2 in enumerate(steps):
                fl = in_flight(s)
                extra = ()
                if sidx:
                    # nodes whose function returned before s2 no longer occupy a slot, and a wait for the FIRST completion
                    # would already have delivered them (their successors count as ready)
                    extra = {x for x in fl if x in v.xexit and v.xexit[x] < s2 and x not in v.xfail}
                    fl = [x for x in fl if x not in extra and not (x in v.xexit and v.xexit[x] < s2)]
                    if not fl:
                        continue
                r = ready_certain(s, extra=extra)
                if fail_seen is not None and fail_seen < s:
                    continue
                seq_running = any(v.attrs[v.idx[m]].get("is_sequential") for m in fl)
                if len(fl) < v.mc and r and not seq_running:
                    rall = ready_certain(s, with_inactive=True, extra=extra)
                    best = max(v.cp[y] for y in rall)
                    if any(v.attrs[y].get("is_sequential") for y in rall if v.cp[y] == best):
                        continue
                    prev = [p for p in evs if p["seq"] < s and p["kind"] in ("WAIT_RET", "SUBMIT", "TASK_NEW", "XENTER", "RES_SET")]
                    p = prev[-1] if prev else None
                    known = (sidx == 0 and e["wkind"] == "thread" and p is not None and p["kind"] == "WAIT_RET"
                             and p["wkind"] == "async" and len(p["done_tasks"]) >= 1)
                    mech = "thread_wait_right_after_async_wait_return" if known else (
                        "blocked_with_free_slot_and_ready_node" if sidx == 0 else "waits_for_all_instead_of_first")
                    add("C08", mech, wait_seq=s, wkind=e["wkind"], rw=e["rw"], in_flight=sorted(fl),
                        ready=[ids[q] for q in r], max_concurrency=v.mc, step=sidx)
                    break

    # ---------------------------------------------------------------- C09 bounded progress
    for e in v.all:
        if e["kind"] == "SPIN":
            add("C09", "scheduler_spins", steps=e["steps"], limit=e["limit"])
        if e["kind"] == "DEADLOCK":
            add("C09", "deadlock_wait_on_nothing_that_can_finish", wkind=e["wkind"], futs=e["futs"])
    if v.op_end is None:
        add("C09", "operation_never_ended")
    if normal and v.ref is not None:
        for i in range(n):
            if v.participates(i) and ids[i] not in v.fexit:
                add("C09", "returned_normally_while_selected_active_node_has_not_run", node=ids[i])
    if normal:
        late = [e for e in v.evs if e["kind"] in ("FEXIT", "XEXIT") and v.op_end and e["seq"] > v.op_end["seq"]]
        if late:
            add("C09", "returned_normally_while_nodes_still_running", nodes=sorted({e["node"] for e in late}))

    # ---------------------------------------------------------------- C14 failing node
    if faults:
        st["c14_fault_cases"] += 1
        _check_c14(v, case, add, st)
    elif not normal and case["ref"][0] == "ok":
        e = res[1]
        if not isinstance(e, (B.SpinDetected, B.DeadlockDetected)):
            add("C14", "internal_error_without_node_failure", exc=type(e).__name__, msg=str(e)[:300])
    return viol, st, v


def _overlap(v, a, b):
    a0, a1 = v.fenter[a], v.fexit.get(a, 1 << 60)
    b0, b1 = v.fenter[b], v.fexit.get(b, 1 << 60)
    return not (a1 < b0 or b1 < a0)


def _check_c14(v, case, add, st):
    from tawazi.errors import TawaziBaseException

    res = case["res"]
    ids = v.ids
    faults = list(case["faults"])
    fired = [f for f in faults if f in v.xfail]
    if res[0] == "ok":
        if fired:
            add("C14", "call_returned_normally_although_node_failed", failed=fired)
        return
    e = res[1]
    if isinstance(e, (B.SpinDetected, B.DeadlockDetected)):
        return
    st["c14_raised"] += 1
    cause = e.__cause__
    located = case.get("located", True)
    if isinstance(e, probes.Injected):
        if located:
            add("C14", "original_exception_not_wrapped_although_location_known", exc=repr(e))
    elif isinstance(e, probes.InjectedBase):
        # the node raised a BaseException (cancellation-like): it reaches the caller as it is; the clauses about what is
        # started afterwards apply as to any other failure
        st["c14_base_exception_failures"] += 1
        if e.node not in faults:
            add("C14", "cause_is_not_the_injected_failure", node=e.node)
    elif isinstance(e, TawaziBaseException) and not isinstance(cause, probes.Injected) and isinstance(e.__context__, probes.Injected):
        # (the wrapper was raised while the node's exception was being handled: that one is its context)
        add("C14", "cause_is_not_the_exception_the_node_raised", cause=repr(cause)[:120], node_raised=repr(e.__context__)[:120])
    elif isinstance(e, TawaziBaseException) and isinstance(cause, probes.Injected):
        nid = cause.node
        msg = str(e)
        if nid not in msg:
            add("C14", "exception_does_not_name_failing_node", msg=msg[:300], node=nid)
        if not located:
            # no call location is known: the call raises the original exception - except where Python cannot carry it (a
            # StopIteration cannot cross a coroutine or an asyncio Future): then the wrapper names the node and carries the cause
            if not isinstance(cause, StopIteration):
                add("C14", "original_exception_wrapped_although_no_location_is_known", exc=repr(e)[:200], cause=repr(cause)[:120])
        elif nid in v.idx:
            # one call site per source line: site i is written on line i + 2 of "<name>"
            loc = "<%s>:%d" % (v.spec["name"], S.site_lines(v.spec)[v.idx[nid]])
            k = msg.find(loc)
            if k < 0 or msg[k + len(loc): k + len(loc) + 1].isdigit():
                add("C14", "exception_does_not_name_call_location", msg=msg[:300], expected=loc)
        if nid not in faults:
            add("C14", "cause_is_not_the_injected_failure", node=nid)
    else:
        add("C14", "internal_error_instead_of_node_failure", exc=type(e).__name__, msg=str(e)[:300],
            cause=repr(cause)[:200])
    # nothing downstream of a failed node is ever started
    g = v.g
    for f in fired:
        for dsc in nx.descendants(g, v.idx[f]):
            st["c14_descendant_checks"] += 1
            if ids[dsc] in v.decision:
                add("C14", "descendant_of_failed_node_started", failed=f, started=ids[dsc])
    # nothing starts after the scheduler has observed the failure
    seen = None
    for f in fired:
        dl = v.delivered.get(f)
        if dl is not None and (seen is None or dl < seen):
            seen = dl
    if seen is not None:
        st["c14_failure_deliveries"] += 1
        for x, s in v.decision.items():
            if s > seen:
                add("C14", "node_started_after_failure_was_observed", started=x, failure_seen_at=seen, decision=s)


def order_hash(case):
    """Hash of the observed enter/exit order (distinct schedules seen)."""
    t = tuple((e["kind"][1], e["node"]) for e in case["log"] if e["kind"] in ("FENTER", "FEXIT"))
    return "%08x" % zlib.crc32(repr(t).encode())


def excerpt(case, limit=60):
    out = []
    for e in case["log"][:limit]:
        d = {k: S.jsonable(val) for k, val in e.items() if k not in ("thread", "args", "kwargs", "value")}
        out.append(d)
    return out


# ------------------------------------------------------------------------------------------------
# generic per-execution monitors (no program spec needed): usable on ANY workload, also on the repository's own tests.
# They read the dependency list / flags tawazi itself attached to the node being executed (recorded in XENTER) - the
# spec-based monitors above remain the authority for "the build recorded the right dependencies".
# ------------------------------------------------------------------------------------------------
def check_generic(log):
    """Returns (violations, stats) over every execution token present in `log`."""
    viol = []
    st = Counter()
    by_tok = {}
    for e in log:
        t = e.get("token")
        if t is not None:
            by_tok.setdefault(t, []).append(e)
    for tok, evs in by_tok.items():
        pool = next((e for e in evs if e["kind"] == "POOL_NEW"), None)
        if pool is None:
            continue
        st["generic_executions"] += 1
        mw = pool.get("max_workers") or 1
        sched_thread = pool["thread"]
        xenter, xexit, meta, count, failed = {}, {}, {}, Counter(), {}
        fut2node, task2fut = {}, {}
        for e in evs:
            k = e["kind"]
            if k == "XENTER":
                count[e["node"]] += 1
                xenter.setdefault(e["node"], e["seq"])
                meta.setdefault(e["node"], e)
                if e.get("fut") is not None:
                    fut2node[e["fut"]] = e["node"]
            elif k == "XEXIT":
                xexit.setdefault(e["node"], e["seq"])
                if not e["ok"]:
                    failed[e["node"]] = e["seq"]
            elif k == "SUBMIT" and e.get("task") is not None:
                task2fut[e["task"]] = e["fut"]

        def add(prop, mech, **w):
            viol.append({"prop": prop, "mech": "generic:" + mech, "witness": dict(w, token=tok)})

        for e in evs:
            if e["kind"] == "COPY_DELIVERED":
                add("C02", "consumer_was_handed_a_copy_of_a_result", node=e.get("node"), value=repr(e.get("value"))[:120])
            elif e["kind"] == "SPIN":
                add("C09", "scheduler_spins", steps=e["steps"], limit=e["limit"])
            elif e["kind"] == "DEADLOCK":
                add("C09", "deadlock_wait_on_nothing_that_can_finish", wkind=e["wkind"], futs=e["futs"])
        # the caller's context: functions of main-thread and async-thread nodes run in (a copy of) the context of the client
        # operation that started the execution (thread-resource nodes are handed to the pool without one - not judged)
        op = None
        for e in log:
            if e["kind"] == "OP_BEGIN" and e["thread"] == sched_thread and e["seq"] < pool["seq"] and e.get("req") is not None:
                op = e
        if op is not None:
            for e in evs:
                if e["kind"] == "FENTER" and "ctx" in e and meta.get(e.get("node"), {}).get("res") in ("main-thread", "async-thread"):
                    st["generic_context_checks"] += 1
                    if e["ctx"] != op["req"]:
                        for prop in ("C01", "C17"):
                            add(prop, "node_function_does_not_see_the_callers_context", node=e["node"], resource=meta[e["node"]]["res"],
                                seen=e["ctx"], callers=op["req"])
                        break
        for x, c in count.items():
            st["generic_c03_nodes"] += 1
            if c > 1:
                add("C03", "node_executed_%d_times_in_one_execution" % c, node=x)
        for x, e in meta.items():
            for d in e.get("deps", []):
                if d in xenter:
                    st["generic_c02_edges"] += 1
                    if not (d in xexit and xexit[d] < xenter[x]):
                        add("C02", "started_before_dependency_finished", node=x, dep=d, dep_enter=xenter[d], dep_exit=xexit.get(d), node_enter=xenter[x])
                    elif d in failed:
                        add("C02", "started_although_dependency_raised", node=x, dep=d)
            res = e.get("res")
            if res is None:
                continue
            st["generic_c04_threads"] += 1
            if res == "main-thread":
                if e["thread"] != sched_thread:
                    add("C04", "main_thread_node_off_invoking_thread", node=x)
            else:
                if e["thread"] == sched_thread or e.get("inline"):
                    add("C04", "pooled_node_on_invoking_thread", node=x, resource=res)
                running = [y for y, m in meta.items() if m.get("res") not in (None, "main-thread") and xenter[y] <= xenter[x]
                           and not (y in xexit and xexit[y] < xenter[x])]
                if len(running) > mw:
                    add("C04", "more_than_max_concurrency_running", at=x, running=sorted(running), max_workers=mw)
            if e.get("is_seq"):
                a0, a1 = xenter[x], xexit.get(x, 1 << 60)
                for y in xenter:
                    if y != x:
                        st["generic_c05_pairs"] += 1
                        b0, b1 = xenter[y], xexit.get(y, 1 << 60)
                        if not (a1 < b0 or b1 < a0):
                            add("C05", "sequential_node_overlapped", sequential=x, other=y, seq_interval=(a0, xexit.get(x)), other_interval=(b0, xexit.get(y)))
        # C14: nothing is dispatched after the wait return (or inline exit) that delivered a failure
        seen = None
        for e in evs:
            if e["kind"] == "WAIT_RET":
                nodes = [fut2node.get(f) for f in e.get("done", [])] + [fut2node.get(task2fut.get(t)) for t in e.get("done_tasks", [])]
                if any(nn in failed for nn in nodes if nn is not None):
                    seen = e["seq"] if seen is None else min(seen, e["seq"])
            elif e["kind"] == "XEXIT" and not e["ok"] and meta.get(e["node"], {}).get("inline"):
                seen = e["seq"] if seen is None else min(seen, e["seq"])
        if seen is not None:
            st["generic_c14_failures_observed"] += 1
            for e in evs:
                if e["seq"] > seen and (e["kind"] in ("SUBMIT", "TASK_NEW") or (e["kind"] == "XENTER" and e.get("inline"))):
                    if e["kind"] == "TASK_NEW" and not str(e.get("coro", "")).endswith("to_thread_in_executor"):
                        continue
                    if e["kind"] == "SUBMIT" and e.get("task") is not None:
                        continue  # the pool submit of an async-thread node decided earlier (its TASK_NEW is the decision)
                    add("C14", "dispatch_after_failure_was_observed", event=e["kind"], node=e.get("node"), failure_seen_at=seen, at=e["seq"])
                    break
    return viol, st
